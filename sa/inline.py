"""Inline calls to repository-local helpers at statement level, so that rules see through "extract method" refactors.

`expand(prog, f, depth=2)` returns a desugared copy of f's AST in which
    helper(args)            (expression statement)
    x = helper(args)        (plain-name or attribute target)
    return helper(args)
are replaced by the helper's body when the callee resolves to exactly one function of the repository (a method of the
same class via self./cls./ClassName., a nested function, a module-level function) and its desugared body is *return-simple*:
every `return` is the last statement of the body or of an if/else arm that ends the function (no return inside a loop, try
or with).  Parameters are substituted by the argument expressions (arguments that are not plain names, attributes or
constants are first bound to fresh locals), callee locals are renamed `<callee>$<name>`.  Everything else is left as a call.

Properties read in expression position (`self.p`) are not inlined; rules that need them use `walk_expanded`, which yields the
nodes of the function and of everything reachable through such calls and property reads (bounded depth), for "somewhere in
the computation" queries.
"""

from __future__ import annotations

import ast
import copy

from .desugar import _loc, desugar
from .pysrc import FuncInfo, dotted


def resolve_callee(prog, f, call, local_defs=None):
    """FuncInfo or ast.FunctionDef of the single repository function `call` invokes, with skip_self flag; None otherwise."""
    fn = call.func
    if isinstance(fn, ast.Name):
        if local_defs and fn.id in local_defs:
            return local_defs[fn.id], False
        r = prog.resolve(f.module, fn.id)
        if isinstance(r, FuncInfo):
            return r, False
        return None
    if isinstance(fn, ast.Attribute) and isinstance(fn.value, ast.Name):
        base = fn.value.id
        if base in ("self", "cls") and f.cls is not None:
            g = prog.lookup(f.cls, fn.attr)
            if g is not None and g.kind in ("method", "classmethod", "staticmethod"):
                return g, g.kind != "staticmethod"
            return None
        r = prog.resolve(f.module, base)
        if r is not None and hasattr(r, "methods"):
            g = prog.lookup(r, fn.attr)
            if g is not None and g.kind in ("classmethod", "staticmethod"):
                return g, g.kind != "staticmethod"
    return None


def _return_simple(body):
    """Every return ends the function: it is the last statement of `body` or of an if/else arm in tail position."""
    def has_ret(n):
        return any(isinstance(x, ast.Return) for x in ast.walk(n))

    for i, st in enumerate(body):
        last = i == len(body) - 1
        if isinstance(st, ast.Return):
            if not last:
                return False
        elif isinstance(st, ast.If):
            if has_ret(st):
                # arms with returns must be in tail position, or every arm that returns must end with its return and the
                # statements after the if are only reached by arms that do not return: model `if c: return X` + rest as
                # if c: return X else: rest
                if not last:
                    if st.orelse and has_ret(ast.Module(body=st.orelse, type_ignores=[])):
                        return False
                    if not _return_simple(st.body):
                        return False
                    if not _return_simple(body[i + 1:]):
                        return False
                    return not any(has_ret(x) for x in body[:i])
                if not (_return_simple(st.body) and _return_simple(st.orelse)):
                    return False
        elif isinstance(st, (ast.FunctionDef, ast.AsyncFunctionDef, ast.ClassDef)):
            continue
        elif has_ret(st):
            return False
    return True


def _normalise_tail(body):
    """Turn `if c: ...return X` followed by rest into if/else so that returns are in tail position of every arm."""
    out = []
    for i, st in enumerate(body):
        if isinstance(st, ast.If) and i < len(body) - 1 and any(isinstance(x, ast.Return) for x in ast.walk(st)) and not st.orelse:
            new = copy.copy(st)
            new.body = _normalise_tail(st.body)
            new.orelse = _normalise_tail(body[i + 1:])
            out.append(new)
            return out
        if isinstance(st, ast.If):
            new = copy.copy(st)
            new.body = _normalise_tail(st.body)
            new.orelse = _normalise_tail(st.orelse)
            out.append(new)
        else:
            out.append(st)
    return out


def _replace_returns(body, make):
    """Replace every tail `return E` by make(E) (list of statements)."""
    out = []
    for st in body:
        if isinstance(st, ast.Return):
            out.extend(make(st.value, st))
        elif isinstance(st, ast.If):
            new = copy.copy(st)
            new.body = _replace_returns(st.body, make) or [_loc(ast.Pass(), st)]
            new.orelse = _replace_returns(st.orelse, make)
            out.append(new)
        else:
            out.append(st)
    return out


class _Subst(ast.NodeTransformer):
    def __init__(self, mapping, rename):
        self.mapping, self.rename = mapping, rename

    def visit_Name(self, n):
        if n.id in self.mapping:
            return copy.deepcopy(self.mapping[n.id])
        if n.id in self.rename:
            return ast.copy_location(ast.Name(id=self.rename[n.id], ctx=n.ctx), n)
        return n

    def visit_FunctionDef(self, n):
        return n  # do not rewrite nested definitions

    visit_Lambda = visit_FunctionDef


def _callee_body(prog, callee, skip_self, call, counter, self_expr):
    node = callee.node if isinstance(callee, FuncInfo) else callee
    d = desugar(node)
    body = [s for s in d.body if not (isinstance(s, ast.Expr) and isinstance(s.value, ast.Constant) and isinstance(s.value.value, str))]
    body = _normalise_tail(body)
    if not _return_simple(body):
        return None
    a = node.args
    if a.vararg or a.kwarg or a.kwonlyargs or any(isinstance(x, ast.Starred) for x in call.args) or any(k.arg is None for k in call.keywords):
        return None
    params = [x.arg for x in a.posonlyargs + a.args]
    mapping, pre = {}, []
    if skip_self and params:
        mapping[params[0]] = self_expr
        params = params[1:]
    defaults = dict(zip([x.arg for x in (a.posonlyargs + a.args)][-len(a.defaults):], a.defaults)) if a.defaults else {}
    given = dict(zip(params, call.args))
    for k in call.keywords:
        given[k.arg] = k.value
    for p in params:
        v = given.get(p, defaults.get(p))
        if v is None:
            return None
        if isinstance(v, (ast.Name, ast.Constant)) or (isinstance(v, ast.Attribute) and dotted(v)):
            mapping[p] = v
        else:
            tmp = "%s$%s%d" % (node.name, p, counter[0])
            pre.append(_loc(ast.Assign(targets=[ast.Name(id=tmp, ctx=ast.Store())], value=v, type_comment=None), call))
            mapping[p] = ast.Name(id=tmp, ctx=ast.Load())
    # locals assigned in the callee get fresh names
    assigned = set()
    for n in ast.walk(ast.Module(body=body, type_ignores=[])):
        if isinstance(n, ast.Name) and isinstance(n.ctx, ast.Store):
            assigned.add(n.id)
    rename = {n: "%s$%s%d" % (node.name, n, counter[0]) for n in assigned if n not in mapping}
    # a parameter that is re-assigned in the callee must become a local too
    for p in list(mapping):
        if p in assigned:
            tmp = "%s$%s%d" % (node.name, p, counter[0])
            pre.append(_loc(ast.Assign(targets=[ast.Name(id=tmp, ctx=ast.Store())], value=copy.deepcopy(mapping[p]), type_comment=None), call))
            rename[p] = tmp
            del mapping[p]
    counter[0] += 1
    sub = _Subst(mapping, rename)
    new = [sub.visit(copy.deepcopy(s)) for s in body]
    return pre + new


def expand(prog, f, depth=2):
    counter = [0]
    root = desugar(f.node)

    def walk_block(stmts, owner, level, local_defs):
        out = []
        for st in stmts:
            if isinstance(st, (ast.FunctionDef, ast.AsyncFunctionDef)):
                local_defs = dict(local_defs)
                local_defs[st.name] = st
                st.body = walk_block(st.body, owner, level, local_defs)  # closures see the same helpers
                out.append(st)
                continue
            call, kind = None, None
            if isinstance(st, ast.Expr) and isinstance(st.value, ast.Call):
                call, kind = st.value, "expr"
            elif isinstance(st, ast.Assign) and len(st.targets) == 1 and isinstance(st.value, ast.Call) \
                    and isinstance(st.targets[0], (ast.Name, ast.Attribute)):
                call, kind = st.value, "assign"
            elif isinstance(st, ast.Return) and isinstance(st.value, ast.Call):
                call, kind = st.value, "return"
            done = False
            if call is not None and level < depth:
                r = resolve_callee(prog, owner, call, local_defs)
                if r is not None:
                    callee, skip = r
                    cnode = callee.node if isinstance(callee, FuncInfo) else callee
                    if cnode is not f.node and not any(isinstance(x, (ast.Yield, ast.YieldFrom)) for x in ast.walk(cnode)):
                        self_expr = copy.deepcopy(call.func.value) if isinstance(call.func, ast.Attribute) else None
                        body = _callee_body(prog, callee, skip, call, counter, self_expr)
                        if body is not None:
                            if kind == "expr":
                                body = _replace_returns(body, lambda v, s: [] if v is None else [_loc(ast.Expr(value=v), s)])
                            elif kind == "assign":
                                tgt = st.targets[0]
                                body = _replace_returns(body, lambda v, s, tgt=tgt: [_loc(ast.Assign(
                                    targets=[copy.deepcopy(tgt)], value=v if v is not None else ast.Constant(value=None), type_comment=None), s)])
                            else:
                                body = _replace_returns(body, lambda v, s: [_loc(ast.Return(value=v), s)])
                            sub_owner = callee if isinstance(callee, FuncInfo) else owner
                            out.extend(walk_block(body, sub_owner, level + 1, local_defs))
                            done = True
            if done:
                continue
            for fld in ("body", "orelse", "finalbody"):
                b = getattr(st, fld, None)
                if isinstance(b, list) and b and isinstance(b[0], ast.stmt):
                    setattr(st, fld, walk_block(b, owner, level, local_defs))
            for h in getattr(st, "handlers", []) or []:
                h.body = walk_block(h.body, owner, level, local_defs)
            out.append(st)
        return out

    root.body = walk_block(root.body, f, 0, {})
    ast.fix_missing_locations(root)
    return root


def walk_expanded(prog, f, depth=3, _seen=None):
    """Yield (node, owner FuncInfo) for f and for every repository function / property reachable from it through self./cls./
    module-level calls and `self.<property>` reads (bounded depth)."""
    seen = _seen if _seen is not None else set()
    if f in seen or depth < 0:
        return
    seen.add(f)
    for n in ast.walk(f.node):
        yield n, f
        g = None
        if isinstance(n, ast.Call):
            r = resolve_callee(prog, f, n)
            if r is not None and isinstance(r[0], FuncInfo):
                g = r[0]
        elif isinstance(n, ast.Attribute) and isinstance(n.value, ast.Name) and n.value.id in ("self", "cls") and f.cls is not None \
                and isinstance(n.ctx, ast.Load):
            h = prog.lookup(f.cls, n.attr)
            if h is not None and h.kind in ("property", "lazyproperty", "staticmethod", "classmethod", "method"):
                g = h
        if g is not None and g not in seen:
            yield from walk_expanded(prog, g, depth - 1, seen)
