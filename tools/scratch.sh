#!/bin/sh
# usage: tools/scratch.sh <benign|seeded>/<id>  -> prints a scratch copy of /repo with the patch applied (caller removes it)
d=$(mktemp -d /var/tmp/vs-XXXXXX); mkdir -p $d/src; cp -r /repo/src/pptx $d/src/; ln -s /repo/spec $d/spec
(cd $d && patch -p1 -s -i /verif/$1/patch.diff) || exit 1
echo $d
