"""Parameter objects ("carriers") read in place.

A carrier is a repository class whose constructor only stores its arguments in fields (`self._x = x`) and whose other members are
properties / methods computing from those fields.  Passing `K(a, b)` instead of `a, b` changes an interface, not a computation:
`open_carriers` rewrites a function so that every use of a carrier-typed name reads the constructor argument it stands for -
`t.prop` -> the field the property returns, `t.m(x)` -> the expression the method returns, `t._x` -> the constructor argument
(for a local `t = K(a, b)`) or a parameter named after the constructor's (for a parameter `t: K`)."""
from __future__ import annotations

import ast
import copy

from .pysrc import dotted


def carrier_fields(prog, K):
    """{field: constructor parameter} when K.__init__ only stores its parameters; None otherwise"""
    ini = K.methods.get("__init__") if hasattr(K, "methods") else None
    if ini is None:
        return None
    ps = ini.params[1:]
    out = {}
    for st in ini.node.body:
        if isinstance(st, ast.Expr) and isinstance(st.value, ast.Constant):
            continue
        if isinstance(st, ast.Assign) and len(st.targets) == 1 and isinstance(st.targets[0], ast.Attribute) and dotted(st.targets[0].value) == "self" \
                and isinstance(st.value, ast.Name) and st.value.id in ps:
            out[st.targets[0].attr] = st.value.id
            continue
        return None
    return out if out and set(out.values()) == set(ps) else None


def _single_return(g):
    body = [s for s in g.node.body if not (isinstance(s, ast.Expr) and isinstance(s.value, ast.Constant))]
    if len(body) == 1 and isinstance(body[0], ast.Return) and body[0].value is not None:
        return body[0].value
    return None


def open_carriers(prog, f, node):
    """(rewritten deep copy of node, {carrier parameter: [new parameter names]}) or (node, {}) when nothing applies"""
    node = copy.deepcopy(node)
    carriers = {}   # name -> (K, fields, ctor args or None)
    for a in node.args.args:
        if a.annotation is not None:
            r = prog.resolve(f.module, ast.unparse(a.annotation).strip("'\""))
            if hasattr(r, "methods"):
                fl = carrier_fields(prog, r)
                if fl:
                    carriers[a.arg] = (r, fl, None)
    counts = {}
    for st in ast.walk(node):
        if isinstance(st, ast.Assign) and len(st.targets) == 1 and isinstance(st.targets[0], ast.Name):
            counts[st.targets[0].id] = counts.get(st.targets[0].id, 0) + 1
    for st in ast.walk(node):
        if isinstance(st, ast.Assign) and len(st.targets) == 1 and isinstance(st.targets[0], ast.Name) and counts[st.targets[0].id] == 1 \
                and isinstance(st.value, ast.Call) and dotted(st.value.func) and not st.value.keywords:
            r = prog.resolve(f.module, dotted(st.value.func))
            if hasattr(r, "methods"):
                fl = carrier_fields(prog, r)
                ini = r.methods.get("__init__")
                if fl and ini is not None and len(st.value.args) == len(ini.params) - 1 and all(dotted(x) for x in st.value.args):
                    carriers[st.targets[0].id] = (r, fl, dict(zip(ini.params[1:], st.value.args)))
    if not carriers:
        return node, {}

    class Open(ast.NodeTransformer):
        changed = False

        def visit_Call(self, n):
            self.generic_visit(n)
            # a local carrier handed on as an argument: the constructor arguments in its place (the callee, read the same way, takes
            # the constructor's parameters where it took the carrier)
            if any(isinstance(a_, ast.Name) and a_.id in carriers and carriers[a_.id][2] is not None for a_ in n.args):
                new_args = []
                for a_ in n.args:
                    if isinstance(a_, ast.Name) and a_.id in carriers and carriers[a_.id][2] is not None:
                        K_ = carriers[a_.id][0]
                        new_args += [copy.deepcopy(carriers[a_.id][2][p_]) for p_ in K_.methods["__init__"].params[1:]]
                        self.changed = True
                    else:
                        new_args.append(a_)
                n.args = new_args
            if isinstance(n.func, ast.Attribute) and isinstance(n.func.value, ast.Name) and n.func.value.id in carriers and not n.keywords:
                K = carriers[n.func.value.id][0]
                g = prog.lookup(K, n.func.attr)
                e = _single_return(g) if g is not None and g.kind == "method" else None
                if e is not None and len(g.params) - 1 == len(n.args):
                    m = dict(zip(g.params[1:], n.args))
                    recv = n.func.value

                    class Sub(ast.NodeTransformer):
                        def visit_Name(self_, x):
                            if x.id == g.params[0]:
                                return copy.deepcopy(recv)
                            return copy.deepcopy(m[x.id]) if x.id in m else x
                    self.changed = True
                    return ast.copy_location(Sub().visit(copy.deepcopy(e)), n)
            return n

        def visit_Attribute(self, n):
            self.generic_visit(n)
            if isinstance(n.value, ast.Name) and n.value.id in carriers and isinstance(n.ctx, ast.Load):
                K, fl, ctor = carriers[n.value.id]
                if n.attr in fl:
                    self.changed = True
                    if ctor is not None:
                        return ast.copy_location(copy.deepcopy(ctor[fl[n.attr]]), n)
                    return ast.copy_location(ast.Name(id=fl[n.attr], ctx=ast.Load()), n)
                g = prog.lookup(K, n.attr)
                e = _single_return(g) if g is not None and g.kind in ("property", "lazyproperty") else None
                if e is not None:
                    recv = n.value

                    class Sub(ast.NodeTransformer):
                        def visit_Name(self_, x):
                            return copy.deepcopy(recv) if x.id == g.params[0] else x
                    self.changed = True
                    return self.visit(ast.copy_location(Sub().visit(copy.deepcopy(e)), n))
            return n

    for _ in range(5):
        o = Open()
        node = o.visit(node)
        if not o.changed:
            break
    new_params = {}
    args = []
    for a in node.args.args:
        if a.arg in carriers and carriers[a.arg][2] is None:
            ini = carriers[a.arg][0].methods["__init__"]
            new_params[a.arg] = list(ini.params[1:])
            args += [ast.arg(arg=p_, annotation=None) for p_ in ini.params[1:]]
        else:
            args.append(a)
    node.args.args = args
    ast.fix_missing_locations(node)
    return node, new_params
