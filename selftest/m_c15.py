"""C15 mutants."""

PK = "src/pptx/package.py"
IM = "src/pptx/parts/image.py"

MUTANTS = [
    ("no-dedup", "get_or_add_image_part always creates a new part",
     [(PK, "        return image_part if image_part else ImagePart.new(self._package, image)", "        return ImagePart.new(self._package, image)")],
     "R15.2 _ImageParts.get_or_add_image_part"),
    ("dedup-inverted", "media part created when one was found",
     [(PK, "        if media_part is None:\n            media_part = MediaPart.new", "        if media_part is not None:\n            media_part = MediaPart.new")],
     "R15.2 _MediaParts.get_or_add_media_part"),
    ("find-returns-first", "_find_by_sha1 returns the first image part",
     [(PK, "            if image_part.sha1 == sha1:\n                return image_part", "            if image_part.sha1:\n                return image_part")],
     "R15.2 _ImageParts._find_by_sha1"),
    ("iter-other-reltype", "image scan follows only hyperlink relationships",
     [(PK, "            if rel.reltype != RT.IMAGE:", "            if rel.reltype != RT.HYPERLINK:")],
     "R15.2 _ImageParts.__iter__"),
    ("ext-from-filename", "extension taken from the file name when there is one",
     [(IM, "        format = self._format\n", "        if self._filename:\n            return os.path.splitext(self._filename)[1][1:].lower()\n        format = self._format\n")],
     "R15.3 Image.ext"),
    ("jpeg-ext-unmapped", "JPEG canonical extension not in the content-type table",
     [(IM, '            "JPEG": "jpg",', '            "JPEG": "jfif",')],
     "R15.1 format JPEG"),
    ("png-not-default", "png Default row removed",
     [("src/pptx/opc/spec.py", '    ("png", CT.PNG),\n', "")],
     "R15.1 format PNG"),
    ("gif-registry", "gif content type registered to the generic part",
     [("src/pptx/__init__.py", "    CT.GIF: ImagePart,\n", "")],
     "R15.1 format GIF"),
    ("sha1-of-filename", "digest over file name and blob",
     [(IM, "    def sha1(self) -> str:\n        \"\"\"SHA1 hash digest of the image blob.\"\"\"\n        return hashlib.sha1(self._blob).hexdigest()",
       "    def sha1(self) -> str:\n        \"\"\"SHA1 hash digest of the image blob.\"\"\"\n        return hashlib.sha1((self._filename or '').encode() + self._blob).hexdigest()")],
     "R15.2 Image.sha1"),
    ("blob-stripped", "from_file strips the bytes it read",
     [(IM, "                blob = f.read()\n", "                blob = f.read().strip()\n")],
     "R15.3 Image.from_file"),
    ("new-wrong-blob", "ImagePart.new re-encodes via the part",
     [(IM, "            image.blob,\n            image.filename,", "            bytes(image.blob[:-1]),\n            image.filename,")],
     "R15.3 ImagePart.new"),
    ("extra-creator", "SlidePart creates image parts directly",
     [("src/pptx/parts/slide.py", "        image_part = self._package.get_or_add_image_part(image_file)",
       "        from pptx.parts.image import Image, ImagePart\n        image_part = ImagePart.new(self._package, Image.from_file(image_file))")],
     "R15.2 creator"),
]

MUTANTS += [
    ("height-from-horizontal-dpi", "native height computed from the horizontal dpi",
     [(IM, "        height = EMU_PER_INCH * height_px / vert_dpi", "        height = EMU_PER_INCH * height_px / horz_dpi")],
     "R15.4 ImagePart._native_size"),
    ("dpi-components-swapped", "normalised dpi swaps the components",
     [(IM, "                return (int_dpi(pil_dpi[0]), int_dpi(pil_dpi[1]))", "                return (int_dpi(pil_dpi[1]), int_dpi(pil_dpi[0]))")],
     "R15.4 Image.dpi"),
    ("media-memo", "media parts remembered in a private dict",
     [(PK, "        media_part = self._find_by_sha1(media.sha1)\n        if media_part is None:", "        media_part = getattr(self, '_last', None) or self._find_by_sha1(media.sha1)\n        if media_part is None:")],
     "R15.2 _MediaParts.get_or_add_media_part"),
]

MUTANTS += [
    ("stream-not-rewound", "Image.from_file reads the caller's stream where its cursor happens to be",
     [("src/pptx/parts/image.py", "            if callable(getattr(image_file, \"seek\")):\n                image_file.seek(0)\n", "")],
     "R15.5 Image.from_file"),
]

MUTANTS += [
    ("scale-from-pixel-grid", "the aspect ratio used for scaling is that of the pixel grid",
     [("src/pptx/parts/image.py", "        image_cx, image_cy = self._native_size\n\n        if scaled_cx and scaled_cy:", "        image_cx, image_cy = self._px_size\n\n        if scaled_cx and scaled_cy:")],
     "R15.4 ImagePart.scale"),
]
