"""Records: tuples and NamedTuple / dataclass instances seen as ordered components.

A function may hand back several values as a plain tuple, or as a small record class whose fields name them; a reader may unpack the
value, index it or read a field.  The rules are about *which component* reaches *which use*, so both sides are brought to component
indices here:

  fields_of(prog, module, ctor)      field names of the record class a constructor expression denotes (None when it is not a record)
  components(prog, module, expr)     [component expressions] of a tuple display or a record construction (positional and keyword)
  component_index(prog, module, producer_exprs, reader)
                                     index selected by `reader` = Subscript(<v>, k) | Attribute(<v>, field), given what the producer returns
"""
from __future__ import annotations

import ast

from .pysrc import dotted


def record_class(prog, module, func_expr):
    d = dotted(func_expr) if func_expr is not None else None
    if not d:
        return None
    rc = None
    try:
        rc = prog.resolve(module, d)
    except Exception:
        rc = None
    if rc is None or not hasattr(rc, "node") or not isinstance(rc.node, ast.ClassDef):
        if d == "cls":
            return None
        return None
    node = rc.node
    is_nt = any((dotted(b) or "").split(".")[-1] == "NamedTuple" for b in node.bases)
    is_dc = any((dotted(d_.func if isinstance(d_, ast.Call) else d_) or "").split(".")[-1] == "dataclass" for d_ in node.decorator_list)
    return rc if (is_nt or is_dc) else None


def fields_of(prog, module, func_expr):
    rc = record_class(prog, module, func_expr)
    if rc is None:
        return None
    return [n.target.id for n in rc.node.body if isinstance(n, ast.AnnAssign) and isinstance(n.target, ast.Name)]


def field_defaults(prog, module, func_expr):
    rc = record_class(prog, module, func_expr)
    if rc is None:
        return {}
    return {n.target.id: n.value for n in rc.node.body if isinstance(n, ast.AnnAssign) and isinstance(n.target, ast.Name) and n.value is not None}


def components(prog, module, expr, cls_fields=None):
    """component expressions of `expr`, or None when it is neither a tuple display nor a record construction.
    `cls_fields` gives the fields when the constructor is written `cls(...)` inside the record's own classmethod."""
    if isinstance(expr, ast.Tuple) and not any(isinstance(e, ast.Starred) for e in expr.elts):
        return list(expr.elts)
    if isinstance(expr, ast.Call):
        fs = fields_of(prog, module, expr.func)
        dfl = field_defaults(prog, module, expr.func)
        if fs is None and cls_fields is not None and dotted(expr.func) == "cls":
            fs, dfl = cls_fields, {}
        if fs is None or any(isinstance(a, ast.Starred) for a in expr.args) or any(k.arg is None for k in expr.keywords):
            return None
        vals = dict(zip(fs, expr.args))
        for k in expr.keywords:
            vals[k.arg] = k.value
        for k, v in dfl.items():
            vals.setdefault(k, v)
        if set(vals) != set(fs):
            return None
        return [vals[f] for f in fs]
    return None


def field_names(prog, module, exprs):
    """the field names common to the record constructions among `exprs` (None when they are plain tuples or disagree)"""
    out = None
    for e in exprs:
        fs = fields_of(prog, module, e.func) if isinstance(e, ast.Call) else None
        if fs is None:
            return None
        if out is not None and out != fs:
            return None
        out = fs
    return out


def selector(reader, names=None):
    """(base expression, index) of a component read: `b[k]` (constant k) or `b.f` with f among `names`; None otherwise"""
    if isinstance(reader, ast.Subscript) and isinstance(reader.slice, ast.Constant) and isinstance(reader.slice.value, int) \
            and not isinstance(reader.slice.value, bool):
        return reader.value, reader.slice.value
    if isinstance(reader, ast.Attribute) and names and reader.attr in names:
        return reader.value, names.index(reader.attr)
    return None


def producer_record(prog, f):
    """(record ClassInfo, field names) when every value function/property `f` returns is built by one record constructor; else None"""
    from .types import walk_own

    rets = [n.value for n in walk_own(f.node) if isinstance(n, ast.Return) and n.value is not None]
    rcs = []
    for r in rets:
        rc = record_class(prog, f.module, r.func) if isinstance(r, ast.Call) else None
        if rc is None and isinstance(r, ast.Call) and isinstance(r.func, ast.Attribute):
            # an alternative constructor of the record class: `Rec.spanning(...)`, a classmethod that ends in `cls(...)`
            owner = record_class(prog, f.module, r.func.value)
            cm = owner.methods.get(r.func.attr) if owner is not None and hasattr(owner, "methods") else None
            if cm is not None and cm.kind == "classmethod" and all(
                    isinstance(x.value, ast.Call) and isinstance(x.value.func, ast.Name) and x.value.func.id == "cls"
                    for x in walk_own(cm.node) if isinstance(x, ast.Return) and x.value is not None):
                rc = owner
        if rc is None:
            return None
        rcs.append(rc)
    if not rcs or any(rc is not rcs[0] for rc in rcs):
        return None
    rc = rcs[0]
    return rc, [n.target.id for n in rc.node.body if isinstance(n, ast.AnnAssign) and isinstance(n.target, ast.Name)]


class TupleView(ast.NodeTransformer):
    """Reads of a record-valued expression written as reads of the tuple it is: `B.field` -> `B[i]`; `B.prop`, prop a one-expression
    property of the record class, -> that expression with `self.field` -> `B[i]`.  `is_base(expr)` says which expressions hold the record."""

    def __init__(self, prog, rc, fields, is_base):
        self.prog, self.rc, self.fields, self.is_base = prog, rc, fields, is_base

    def visit_Attribute(self, n):
        self.generic_visit(n)
        if not self.is_base(n.value):
            return n
        if n.attr in self.fields:
            return ast.copy_location(ast.Subscript(value=n.value, slice=ast.Constant(value=self.fields.index(n.attr)), ctx=ast.Load()), n)
        pr = self.rc.methods.get(n.attr) if hasattr(self.rc, "methods") else None
        if pr is not None and pr.kind in ("property", "lazyproperty"):
            body = [s_ for s_ in pr.node.body if not (isinstance(s_, ast.Expr) and isinstance(s_.value, ast.Constant))]
            if len(body) == 1 and isinstance(body[0], ast.Return) and body[0].value is not None:
                import copy

                base, fields = n.value, self.fields

                class S(ast.NodeTransformer):
                    def visit_Attribute(self_, x):
                        if isinstance(x.value, ast.Name) and x.value.id == "self" and x.attr in fields:
                            return ast.Subscript(value=copy.deepcopy(base), slice=ast.Constant(value=fields.index(x.attr)), ctx=ast.Load())
                        return self_.generic_visit(x)
                src = body[0].value
                n_self = sum(1 for x in ast.walk(src) if isinstance(x, ast.Name) and x.id == "self")
                n_fld = sum(1 for x in ast.walk(src) if isinstance(x, ast.Attribute) and isinstance(x.value, ast.Name) and x.value.id == "self" and x.attr in fields)
                if n_self == n_fld:   # the record itself is used only through its fields
                    return ast.copy_location(S().visit(copy.deepcopy(src)), n)
        return n


def ctor_to_tuple(prog, module, e, cls_fields=None):
    """a record construction written as the tuple of its components (other expressions unchanged); `cls_fields` are the fields of the
    record when the construction is written `cls(...)` (read out of one of its own classmethods)"""
    if isinstance(e, ast.Call):
        cs = components(prog, module, e, cls_fields)
        if cs is not None and (fields_of(prog, module, e.func) is not None or (cls_fields is not None and dotted(e.func) == "cls")):
            return ast.copy_location(ast.Tuple(elts=list(cs), ctx=ast.Load()), e)
    return e
