#!/venv/bin/python
"""Regression over the two corpora, on scratch copies of /repo (the working tree itself is not touched):

  tools/regress.py benign [ids...]   every behaviour-preserving change under benign/ : every claimed check must exit 0
  tools/regress.py seeds  [ids...]   every seeded breaking change under seeded/   : at least one of the checks named in its
                                     meta.json "detected_by" must exit 1 (VIOLATION), none may exit 2
Prints one line per corpus entry that does not meet the expectation, and a summary.  Exit 0 only when all do.
"""
import json
import os
import re
import shutil
import subprocess
import sys
import tempfile
from concurrent.futures import ThreadPoolExecutor

HERE = os.path.dirname(os.path.dirname(os.path.abspath(__file__)))
REPO = os.environ.get("VERIF_REPO", "/repo")


def scratch(patch):
    base = os.environ.get("TMPDIR") or "/var/tmp"
    d = tempfile.mkdtemp(prefix="verif-scratch-", dir=base)
    os.makedirs(os.path.join(d, "src"))
    shutil.copytree(os.path.join(REPO, "src", "pptx"), os.path.join(d, "src", "pptx"), ignore=shutil.ignore_patterns("__pycache__"))
    os.symlink(os.path.join(REPO, "spec"), os.path.join(d, "spec"))
    # only the library source is copied: hunks for other files (tests, docs) are dropped from the patch first
    txt = open(patch).read()
    parts = re.split(r"(?m)^(?=diff --git )", txt)
    keep = [p_ for p_ in parts if not p_.startswith("diff --git ") or re.match(r"diff --git a/src/pptx/", p_)]
    src_only = os.path.join(d, ".src-only.diff")
    open(src_only, "w").write("".join(keep))
    r = subprocess.run(["patch", "-p1", "-s", "-i", src_only], cwd=d, capture_output=True, text=True)
    os.remove(src_only)
    if r.returncode:
        shutil.rmtree(d, ignore_errors=True)
        return None, (r.stdout + r.stderr).strip()[:200]
    return d, None


def run_check(pid, repo):
    env = dict(os.environ, VERIF_NOWRITE="1")
    r = subprocess.run(["/venv/bin/python", "check", pid, "--tier", "quick", "--repo", repo], cwd=HERE, capture_output=True, text=True, env=env)
    lines = [l for l in (r.stdout + r.stderr).splitlines() if not l.startswith("KNOWN-FINDING")]
    return r.returncode, lines


def one(kind, name, claimed):
    d = os.path.join(HERE, "benign" if kind == "benign" else "seeded", name)
    sc, err = scratch(os.path.join(d, "patch.diff"))
    if sc is None:
        return name, False, ["patch does not apply: %s" % err]
    try:
        if kind == "benign":
            bad = []
            # expect.json: a refactor that *relocates* a genuine defect of the pinned tree (a known finding keyed by its site) is
            # reported under the new site - a true report on that tree; the expected exit code per check is recorded with the reason
            exp = {}
            if os.path.exists(os.path.join(d, "expect.json")):
                exp = {k: v for k, v in json.load(open(os.path.join(d, "expect.json"))).items() if k.startswith("C")}
            for pid in claimed:
                code, lines = run_check(pid, sc)
                if code != exp.get(pid, 0):
                    bad.append("%s exit %d: %s" % (pid, code, " | ".join(l.strip()[:170] for l in lines[:3])))
            return name, not bad, bad
        meta = json.load(open(os.path.join(d, "meta.json")))
        if meta.get("detected_by", "").startswith("NOT DETECTED"):
            # recorded miss (reason in meta.json): still run the property's own check, which must not crash
            code, lines = run_check(meta["property"], sc)
            return name, code in (0, 1), ["%s exit %d (recorded as not detected)" % (meta["property"], code)] if code == 2 else []
        ids = sorted(set(re.findall(r"\bC\d\d\b", meta.get("detected_by", ""))) & set(claimed)) or [meta["property"]]
        hit, msgs = False, []
        for pid in ids:
            code, lines = run_check(pid, sc)
            if code == 1:
                hit = True
            elif code == 2:
                msgs.append("%s exit 2: %s" % (pid, " | ".join(l.strip()[:170] for l in lines[:2])))
            else:
                msgs.append("%s exit 0" % pid)
        return name, hit and not any("exit 2" in m for m in msgs), msgs if not hit or any("exit 2" in m for m in msgs) else []
    finally:
        shutil.rmtree(sc, ignore_errors=True)


def main():
    kind = sys.argv[1]
    m = json.load(open(os.path.join(HERE, "MANIFEST.json")))
    claimed = sorted(c["property_id"] for c in m["checks"])
    root = os.path.join(HERE, "benign" if kind == "benign" else "seeded")
    names = sys.argv[2:] or sorted(os.listdir(root))
    fails = 0
    with ThreadPoolExecutor(6 if kind == "benign" else 12) as ex:
        for name, ok, msgs in ex.map(lambda n: one(kind, n, claimed), names):
            if not ok:
                fails += 1
                print("%s %s" % ("ALARM" if kind == "benign" else "MISS ", name))
                for x in msgs:
                    print("     " + x)
    print("%s: %d of %d as expected" % (kind, len(names) - fails, len(names)))
    return 1 if fails else 0


if __name__ == "__main__":
    sys.exit(main())
