"""C17 mutants."""

MUTANTS = [
    ("textbox-no-recalc", "add_textbox no longer recalculates",
     [("src/pptx/shapes/shapetree.py", "        sp = self._add_textbox_sp(left, top, width, height)\n        self._recalculate_extents()\n", "        sp = self._add_textbox_sp(left, top, width, height)\n")],
     "R17.1 _BaseGroupShapes.add_textbox"),
    ("picture-recalc-conditional", "add_picture recalculates only when a size was given",
     [("src/pptx/shapes/shapetree.py", "        pic = self._add_pic_from_image_part(image_part, rId, left, top, width, height)\n        self._recalculate_extents()",
       "        pic = self._add_pic_from_image_part(image_part, rId, left, top, width, height)\n        if width is not None:\n            self._recalculate_extents()")],
     "R17.1 _BaseGroupShapes.add_picture"),
    ("recalc-before-insert", "add_connector recalculates before inserting",
     [("src/pptx/shapes/shapetree.py", "        cxnSp = self._add_cxnSp(connector_type, begin_x, begin_y, end_x, end_y)\n        self._recalculate_extents()",
       "        self._recalculate_extents()\n        cxnSp = self._add_cxnSp(connector_type, begin_x, begin_y, end_x, end_y)")],
     "R17.1 _BaseGroupShapes.add_connector"),
    ("group-hook-noop", "GroupShapes._recalculate_extents does nothing",
     [("src/pptx/shapes/shapetree.py", "        self._grpSp.recalculate_extents()\n\n\nclass SlideShapes", "        pass\n\n\nclass SlideShapes")],
     "R17.2 GroupShapes._recalculate_extents"),
    ("no-upward-recursion", "recalculate_extents stops at the group itself",
     [("src/pptx/oxml/shapes/groupshape.py", "        self.getparent().recalculate_extents()\n", "")],
     "R17.2 CT_GroupShape.recalculate_extents"),
    ("freeform-fix-reverted", "convert_to_shape no longer recalculates",
     [("src/pptx/shapes/freeform.py", "        self._shapes._recalculate_extents()  # pyright: ignore[reportPrivateUsage]\n", "")],
     "R17.1 FreeformBuilder.convert_to_shape"),
]
