"""C14 — tables stay rectangular and merges consistent (decidable clauses).

Rules
  R14.1  refusal before mutation: in _Cell.merge the same-table and contains-merged-cell tests raise ValueError and dominate
         every mutating statement; in _Cell.split the merge-origin test does
  R14.2  one span vocabulary: the attributes merge writes = the attributes split resets (to the neutral value) = the
         attributes contains_merged_cell tests = the attributes is_merge_origin / is_spanned read
  R14.3  regions: the five TcRange iterators are decoded to (row-slice, column-slice) over top/bottom/left/right; merge
         writes rowSpan over the top row, gridSpan over the left column, hMerge over all-but-left-column, vMerge over
         all-but-top-row (so the origin alone has neither merge flag and every other cell has one); contains_merged_cell,
         move_content_to_origin and split range over the whole rectangle; the extents are min / |difference|+1 and
         bottom = top + height, right = left + width; from_merge_origin's far corner is origin + span - 1
  R14.4  size bookkeeping: column-width / row-height setters store and then notify; the notification chain reaches
         Table.notify_*_changed, which assigns the frame's size from the sum over all columns / rows
  R14.5  construction: new_tbl adds `cols` grid columns, `rows` rows and `cols` cells per row; widths and heights sum to the
         requested size for every (rows, cols, width, height) (polynomial identity, floor division opaque); no other
         function adds or removes rows, cells or grid columns
  (effect of arbitrary merge/split sequences on the four flags, text order: not decided)
"""

from __future__ import annotations

import ast

from sa.poly import Poly, of_expr
from sa.pysrc import dotted
from sa.report import AnalysisError

SPAN_ATTRS = {"rowSpan", "gridSpan", "hMerge", "vMerge"}
NEUTRAL = {"rowSpan": 1, "gridSpan": 1, "hMerge": False, "vMerge": False}


def _body(f):
    b = f.node.body
    if b and isinstance(b[0], ast.Expr) and isinstance(b[0].value, ast.Constant) and isinstance(b[0].value.value, str):
        return b[1:]
    return b


def _stores(node):
    """(receiver-name, attr, value-node) of every attribute store in the subtree."""
    out = []
    for n in ast.walk(node):
        if isinstance(n, ast.Assign):
            for t in n.targets:
                if isinstance(t, ast.Attribute):
                    out.append((dotted(t.value), t.attr, n.value, n.lineno))
    return out


def _slice_of(node, env):
    """Decode `X[a:b]` / `X[i]` -> (base-dotted, lo Poly, hi Poly)."""
    if not isinstance(node, ast.Subscript):
        return None
    base = dotted(node.value)
    s = node.slice
    if isinstance(s, ast.Slice):
        if s.step is not None or s.lower is None or s.upper is None:
            return None
        return base, of_expr(s.lower, env), of_expr(s.upper, env)
    lo = of_expr(s, env)
    return base, lo, lo + Poly.const(1)


def decode_iter(f):
    """(rows lo, rows hi, cols lo, cols hi) over symbols top/bottom/left/right for a TcRange iterator; None if the shape
    is not one of the repo's idioms (nested for / generator expression / single row or column)."""
    env = {}
    sym = {"self._top": "top", "self._bottom": "bottom", "self._left": "left", "self._right": "right"}

    class Ren(ast.NodeTransformer):
        def visit_Attribute(self, n):
            d = dotted(n)
            if d in sym:
                return ast.Name(id=sym[d], ctx=ast.Load())
            return self.generic_visit(n)

    import copy

    node = Ren().visit(copy.deepcopy(f.node))
    rows = cols = None
    rowvar = None
    for st in _body_nodes(node):
        if isinstance(st, ast.Assign) and isinstance(st.targets[0], ast.Name):
            # tr = self._tbl.tr_lst[top]   /   col_idx = left
            sl = _slice_of(st.value, env)
            if sl and sl[0] == "self._tbl.tr_lst":
                rows = (sl[1], sl[2])
                rowvar = st.targets[0].id
            else:
                env[st.targets[0].id] = of_expr(st.value, env)
    fors = []
    for n in ast.walk(node):
        if isinstance(n, ast.For):
            fors.append((n.target, n.iter, n))
        elif isinstance(n, ast.GeneratorExp):
            for g in n.generators:
                fors.append((g.target, g.iter, n))
    for tgt, it, owner in fors:
        sl = _slice_of(it, env)
        if sl is None:
            return None
        if sl[0] == "self._tbl.tr_lst":
            rows = (sl[1], sl[2])
            rowvar = tgt.id
        elif rowvar and sl[0] == rowvar + ".tc_lst":
            cols = (sl[1], sl[2])
        else:
            return None
    if cols is None:
        # yield tr.tc_lst[col_idx]
        for n in ast.walk(node):
            if isinstance(n, ast.Yield) and n.value is not None:
                sl = _slice_of(n.value, env)
                if sl and rowvar and sl[0] == rowvar + ".tc_lst":
                    cols = (sl[1], sl[2])
    if rows is None or cols is None:
        return None
    return rows[0], rows[1], cols[0], cols[1]


def _body_nodes(fn):
    for st in fn.body:
        yield st


def _P(s):
    """parse 'top+1' style expectation"""
    return of_expr(ast.parse(s, mode="eval").body)


EXPECT_REGION = {
    # attribute written by merge -> region it must cover
    "rowSpan": ("top", "top+1", "left", "right"),
    "gridSpan": ("top", "bottom", "left", "left+1"),
    "hMerge": ("top", "bottom", "left+1", "right"),
    "vMerge": ("top+1", "bottom", "left", "right"),
}
WHOLE = ("top", "bottom", "left", "right")


def run(ctx):
    from checks.c10 import load

    prog, S, M = load(ctx.repo)
    ctx.level = "other"
    ctx.trusted = ["CPython ast", "polynomial normal forms (floor division opaque)", "slice semantics of Python lists"]
    ctx.explanation = (
        "Rectangularity and merge consistency rest on (a) refusals dominating mutation, (b) one span vocabulary shared by merge, "
        "split and the predicates, (c) the regions the four flags are written over, decoded from the slice expressions of the "
        "TcRange iterators into intervals over top/bottom/left/right and compared with the regions the statement implies, "
        "(d) the notify chain from size setters to the frame, and (e) the construction loop, whose sizes are proved to sum to "
        "the requested size as a polynomial identity. Sequences of operations are not explored.")
    ctx.not_decided = ["state reached by arbitrary merge/split sequences", "reading order of migrated text", "values of sizes"]

    tmod = prog.modules.get("pptx.table")
    omod = prog.modules.get("pptx.oxml.table")
    if tmod is None or omod is None:
        raise AnalysisError("anchor vanished: pptx.table / pptx.oxml.table")
    cell = tmod.classes.get("_Cell")
    rng = omod.classes.get("TcRange")
    tcc = omod.classes.get("CT_TableCell")
    if not (cell and rng and tcc):
        raise AnalysisError("anchor vanished: _Cell / TcRange / CT_TableCell")
    merge, split = cell.methods.get("merge"), cell.methods.get("split")
    if not (merge and split):
        raise AnalysisError("anchor vanished: _Cell.merge / split")
    # every function below is analysed in canonical form: desugared, with statement-level calls to repository helpers inlined
    import copy as _copy

    from sa.inline import expand as _expand

    def canon(f, skip=()):
        if f is None:
            return None
        g = _copy.copy(f)
        g.node = _expand(prog, f, skip_names=skip)
        return g

    from sa import inline as _inl
    from sa.types import Types as _Types

    _inl.use_types(_Types(prog, M))   # `tc_range.apply_merge_marks()` resolves through the receiver's type
    try:
        # the region iterators are the vocabulary of R14.3: they stay calls
        _iters = tuple(n_ for n_ in rng.methods if n_.startswith("iter_"))
        merge, split = canon(merge, _iters), canon(split, _iters)
    finally:
        _inl.use_types(None)
    for _name in list(rng.methods):
        if _name.startswith("iter_") or _name in ("contains_merged_cell", "move_content_to_origin"):
            rng.methods[_name] = canon(rng.methods[_name], () if _name.startswith("iter_") else _iters)

    from sa import records as R_
    _ext_f = rng.methods.get("_extents")
    _ext_rec = R_.producer_record(prog, _ext_f) if _ext_f is not None else None   # the extents as a record class, if they are one

    def returned(f, local_only=False):
        """the returned expressions of f's canonical form with single-assignment locals substituted ([] when not a single shape);
        a record of extents reads as the (left, top, width, height) tuple it stands for"""
        from sa import paths as P_

        fx = _expand(prog, f, local_only=local_only)
        val = P_.value_aliases(fx)
        val.pop("_", None)
        from sa.types import walk_own as _walk_own

        out = []
        for n in _walk_own(fx):
            if isinstance(n, ast.Return) and n.value is not None:
                e = ast.parse(P_.full(n.value, val, depth=8), mode="eval").body
                if _ext_rec is not None:
                    e = R_.TupleView(prog, _ext_rec[0], _ext_rec[1], lambda b: dotted(b) == "self._extents").visit(e)
                    e = R_.ctor_to_tuple(prog, f.module, e, _ext_rec[1])
                    ast.fix_missing_locations(e)
                out.append(e)
        return out

    # -- R14.1 -------------------------------------------------------------------------------------------
    ctx.rule("R14.1", "refusal tests raise ValueError and dominate every mutating statement of merge / split")

    def guards_then_mutations(f, want):
        body = _body(f)
        seen = {}
        first_mut = None
        for i, st in enumerate(body):
            if isinstance(st, ast.If) and any(isinstance(x, ast.Raise) for x in st.body) and not st.orelse:
                names = {n.attr for n in ast.walk(st.test) if isinstance(n, ast.Attribute)}
                exc = [dotted(x.exc.func) if isinstance(x.exc, ast.Call) else dotted(x.exc) for x in st.body if isinstance(x, ast.Raise)]
                neg = isinstance(st.test, ast.UnaryOp) and isinstance(st.test.op, ast.Not)
                for w in want:
                    if w in names:
                        seen[w] = (i, exc, neg)
                continue
            mut = bool(_stores(st)) or any(
                isinstance(n, ast.Call) and isinstance(n.func, ast.Attribute) and (
                    n.func.attr.startswith(("move_", "append", "remove", "clear", "add_", "insert", "unclear")))
                for n in ast.walk(st))
            if mut and first_mut is None:
                first_mut = i
        return seen, first_mut

    for f, want in ((merge, {"in_same_table": True, "contains_merged_cell": False}), (split, {"is_merge_origin": True})):
        seen, first_mut = guards_then_mutations(f, want)
        for w, negated in want.items():
            key = "_Cell.%s:%s" % (f.name, w)
            g = seen.get(w)
            if g is None:
                ctx.violation("R14.1", key, "%s does not refuse on %s" % (f.name, w), file=f.file, line=f.line)
            elif g[2] != negated:
                ctx.violation("R14.1", key, "%s refuses on the wrong polarity of %s" % (f.name, w), file=f.file, line=f.line)
            elif g[1] != ["ValueError"]:
                ctx.violation("R14.1", key, "refusal raises %s, not ValueError" % g[1], file=f.file, line=f.line)
            elif first_mut is None:
                ctx.error(key, "no mutating statement recognised in %s" % f.name)
            elif g[0] > first_mut:
                ctx.violation("R14.1", key, "a mutating statement precedes the %s refusal: a refused call changes the table" % w,
                              file=f.file, line=f.line)
            else:
                ctx.ok("R14.1", key, sample={"guard": w, "raises": "ValueError", "before_first_mutation": True})

    # -- R14.2 -------------------------------------------------------------------------------------------
    ctx.rule("R14.2", "merge, split, contains_merged_cell, is_merge_origin and is_spanned use one span vocabulary")
    written = {}
    for n in ast.walk(merge.node):
        if isinstance(n, ast.For) and isinstance(n.iter, ast.Call) and isinstance(n.target, ast.Name):
            it = dotted(n.iter.func) or ""
            for recv, attr, val, ln in _stores(n):
                if recv == n.target.id:
                    written[attr] = (it.split(".")[-1], val)
    reset = {}
    split_iter = None
    split_form = None
    split_region = None       # for the index-loop form: (rows lo, rows hi, cols lo, cols hi) as Poly over origin symbols
    split_bounds_reread = []  # bounds evaluated again after the body has reset the attribute they read
    from sa.guards import aliases as _aliases, norm as _norm

    sal = _aliases(split.node)
    for n in split.node.body:
        if not isinstance(n, ast.For):
            continue
        if isinstance(n.iter, ast.Call) and isinstance(n.target, ast.Name) and isinstance(n.iter.func, ast.Attribute) \
                and n.iter.func.attr.startswith("iter_"):
            split_form = "iterator"
            split_iter = n.iter.func.attr
            tcv = n.target.id
            inner = n
        elif isinstance(n.iter, ast.Call) and dotted(n.iter.func) == "range" and len(n.body) == 1 and isinstance(n.body[0], ast.For) \
                and isinstance(n.body[0].iter, ast.Call) and dotted(n.body[0].iter.func) == "range":
            split_form = "index-loops"
            inner = n.body[0]
            tcv = None
            for m in inner.body:
                if isinstance(m, ast.Assign) and isinstance(m.value, ast.Call) and isinstance(m.value.func, ast.Attribute) and m.value.func.attr == "tc" \
                        and [dotted(x) for x in m.value.args] == [n.target.id, inner.target.id]:
                    tcv = m.targets[0].id
                elif isinstance(m, ast.Assign) and isinstance(m.value, ast.Subscript) and isinstance(m.targets[0], ast.Name):
                    # the cell accessor read in place: `<tbl>.tr_lst[row].tc_lst[col]`
                    v_ = m.value
                    if isinstance(v_.value, ast.Attribute) and v_.value.attr == "tc_lst" and isinstance(v_.value.value, ast.Subscript) \
                            and isinstance(v_.value.value.value, ast.Attribute) and v_.value.value.value.attr == "tr_lst" \
                            and [dotted(v_.value.value.slice), dotted(v_.slice)] == [n.target.id, inner.target.id]:
                        tcv = m.targets[0].id

            def rng_bounds(call):
                a_ = call.args
                lo = ast.Constant(0) if len(a_) == 1 else a_[0]
                hi = a_[0] if len(a_) == 1 else a_[1]
                return lo, hi

            def P_(e):
                import copy

                class Ren(ast.NodeTransformer):
                    def visit_Attribute(self_, x):
                        d = _norm(x, sal)
                        m_ = {"self._tc.row_idx": "top", "self._tc.col_idx": "left", "self._tc.rowSpan": "rowSpan", "self._tc.gridSpan": "gridSpan"}
                        if d in m_:
                            return ast.Name(id=m_[d], ctx=ast.Load())
                        return self_.generic_visit(x)

                    def visit_Name(self_, x):
                        if x.id in sal:
                            return self_.visit(copy.deepcopy(sal[x.id]))
                        return x
                return of_expr(Ren().visit(copy.deepcopy(e)))

            (r0, r1), (c0, c1) = rng_bounds(n.iter), rng_bounds(inner.iter)
            split_region = (P_(r0), P_(r1), P_(c0), P_(c1))
            # the inner range() is evaluated once per outer iteration: it must not read what the body resets
            for e in inner.iter.args:
                for x in ast.walk(e):
                    if isinstance(x, ast.Attribute) and x.attr in SPAN_ATTRS:
                        split_bounds_reread.append(ast.unparse(x))
        else:
            continue
        for m in ast.walk(inner):
            if isinstance(m, ast.Assign):
                v = prog.const(m.value, split.module)
                for t in m.targets:
                    if isinstance(t, ast.Attribute) and tcv and dotted(t.value) == tcv:
                        reset[t.attr] = v
            elif isinstance(m, ast.Call) and isinstance(m.func, ast.Attribute) and tcv and dotted(m.func.value) == tcv and not m.args and not m.keywords:
                # `tc.clear_merge_attrs()`: a method of the cell element that stores constants into its own attributes
                hm = prog.lookup(tcc, m.func.attr) if tcc is not None else None
                if hm is not None and all(isinstance(x, (ast.Assign, ast.Expr)) for x in hm.node.body):
                    for x in hm.node.body:
                        if isinstance(x, ast.Assign):
                            v = prog.const(x.value, hm.module)
                            for t in x.targets:
                                if isinstance(t, ast.Attribute) and dotted(t.value) == "self":
                                    reset[t.attr] = v
    if split_form is None:
        ctx.error("_Cell.split", "loop over the merged region not recognised (expected `for tc in <range>.iter_*()` or nested range() loops)")
    cmc = rng.methods.get("contains_merged_cell")
    tested = {}
    cmc_iter = None
    cmc_form = None
    if cmc is None:
        raise AnalysisError("anchor vanished: TcRange.contains_merged_cell")

    def span_tests(t, v, depth=0):
        out = {}
        parts = t.values if isinstance(t, ast.BoolOp) and isinstance(t.op, ast.Or) else [t]
        for e in parts:
            # a predicate property of the cell (`tc.in_merged_cell`) reads as the expression it returns
            if isinstance(e, ast.Attribute) and dotted(e.value) == v and e.attr not in SPAN_ATTRS and depth < 3:
                pr = prog.lookup(tcc, e.attr)
                if pr is not None and pr.kind in ("property", "lazyproperty"):
                    rb = [x for x in pr.node.body if not (isinstance(x, ast.Expr) and isinstance(x.value, ast.Constant))]
                    if len(rb) == 1 and isinstance(rb[0], ast.Return) and rb[0].value is not None:
                        out.update(span_tests(rb[0].value, "self", depth + 1))
                        continue
            if isinstance(e, ast.Compare) and (dotted(e.left) or "").startswith(v + ".") and isinstance(e.ops[0], ast.Gt) \
                    and prog.const(e.comparators[0], cmc.module) == 1:
                out[dotted(e.left).split(".")[1]] = ">1"
            elif isinstance(e, ast.Attribute) and dotted(e.value) == v:
                out[e.attr] = "truthy"
            else:
                out["?" + ast.unparse(e)[:30]] = "unrecognised"
        return out

    falls_false = False
    for n in ast.walk(cmc.node):
        if isinstance(n, ast.For) and isinstance(n.iter, ast.Call):
            cmc_form = "loop"
            cmc_iter = (dotted(n.iter.func) or "").split(".")[-1]
            v = n.target.id
            for m in ast.walk(n):
                if isinstance(m, ast.If) and any(isinstance(r, ast.Return) and prog.const(r.value, cmc.module) is True for r in m.body):
                    tested.update(span_tests(m.test, v))
            falls_false = any(isinstance(st, ast.Return) and prog.const(st.value, cmc.module) is False for st in cmc.node.body)
        if isinstance(n, ast.Return) and isinstance(n.value, ast.Call) and dotted(n.value.func) == "any" and n.value.args \
                and isinstance(n.value.args[0], (ast.GeneratorExp, ast.ListComp)):
            g = n.value.args[0]
            if len(g.generators) == 1 and not g.generators[0].ifs and isinstance(g.generators[0].iter, ast.Call):
                cmc_form = "any()"
                cmc_iter = (dotted(g.generators[0].iter.func) or "").split(".")[-1]
                tested.update(span_tests(g.elt, g.generators[0].target.id))
                falls_false = True  # any() over no match is False
    if cmc_form is None:
        ctx.error("TcRange.contains_merged_cell", "scan not recognised (expected a loop returning True per test, or any(<tests> for tc in ...))")
    key = "span-vocabulary"
    probs = []
    if set(written) != SPAN_ATTRS:
        probs.append("merge writes %s" % sorted(written))
    if split_form is not None and not reset:
        ctx.error("_Cell.split", "what the loop over the merged region stores into each cell is not recognised")
    elif {k: v for k, v in reset.items()} != NEUTRAL and split_form is not None:
        probs.append("split resets %s (expected %s)" % (reset, NEUTRAL))
    if set(tested) != SPAN_ATTRS or tested.get("rowSpan") != ">1" or tested.get("gridSpan") != ">1" or not falls_false:
        probs.append("contains_merged_cell tests %s (all-clear returns False: %s)" % (tested, falls_false))
    if written.get("hMerge") and prog.const(written["hMerge"][1], merge.module) is not True:
        probs.append("merge does not set hMerge to True")
    if written.get("vMerge") and prog.const(written["vMerge"][1], merge.module) is not True:
        probs.append("merge does not set vMerge to True")
    if probs:
        ctx.violation("R14.2", key, "; ".join(probs), file=merge.file, line=merge.line)
    else:
        ctx.ok("R14.2", key, sample={"merge_writes": sorted(written), "split_resets": {k: repr(v) for k, v in reset.items()},
                                     "refusal_tests": tested})
    # span values: rowSpan <- row_count, gridSpan <- col_count where (row_count, col_count) = dimensions = (height, width)
    dims = rng.methods.get("dimensions")
    dim_ok = False
    if dims is not None:
        rv_ = returned(dims, local_only=True)
        if len(rv_) == 1 and isinstance(rv_[0], ast.Tuple) and len(rv_[0].elts) == 2:
            dim_ok = [ast.unparse(e) for e in rv_[0].elts] == ["self._extents[3]", "self._extents[2]"]
    munpack = [n for n in ast.walk(merge.node) if isinstance(n, ast.Assign) and isinstance(n.targets[0], ast.Tuple)
               and (dotted(n.value) or "").endswith(".dimensions")]
    span_ok = False
    if munpack and "rowSpan" in written and "gridSpan" in written:
        rn, cn = [getattr(e, "id", None) for e in munpack[0].targets[0].elts]
        span_ok = dotted(written["rowSpan"][1]) == rn and dotted(written["gridSpan"][1]) == cn
    if dim_ok and span_ok:
        ctx.ok("R14.2", "span-values", sample={"rowSpan": "height of the range", "gridSpan": "width of the range"})
    else:
        ctx.violation("R14.2", "span-values", "origin does not report the range's (rows, columns) as (rowSpan, gridSpan) "
                      "(dimensions=(height,width): %s; merge assigns them in that order: %s)" % (dim_ok, span_ok),
                      file=merge.file, line=merge.line)
    # predicates
    for pname, expect in (("is_merge_origin", {"gridSpan", "rowSpan", "hMerge", "vMerge"}), ("is_spanned", {"hMerge", "vMerge"})):
        p = tcc.methods.get(pname)
        if p is None:
            raise AnalysisError("anchor vanished: CT_TableCell.%s" % pname)
        reads = {n.attr for n in ast.walk(p.node) if isinstance(n, ast.Attribute) and dotted(n.value) == "self"}
        if reads == expect:
            ctx.ok("R14.2", "CT_TableCell.%s" % pname, sample={"reads": sorted(reads)})
        else:
            ctx.violation("R14.2", "CT_TableCell.%s" % pname, "predicate reads %s, expected %s" % (sorted(reads), sorted(expect)),
                          file=p.file, line=p.line)
    # is_merge_origin = (gridSpan>1 and not vMerge) or (rowSpan>1 and not hMerge): pairing of span with the *other* axis' flag
    p = tcc.methods["is_merge_origin"]
    pairs = set()
    for n in ast.walk(p.node):
        if isinstance(n, ast.BoolOp) and isinstance(n.op, ast.And) and len(n.values) == 2:
            a, b = n.values
            if isinstance(a, ast.Compare) and isinstance(a.ops[0], ast.Gt) and isinstance(b, ast.UnaryOp) and isinstance(b.op, ast.Not):
                pairs.add((dotted(a.left), dotted(b.operand)))
    if pairs == {("self.gridSpan", "self.vMerge"), ("self.rowSpan", "self.hMerge")}:
        ctx.ok("R14.2", "is_merge_origin:pairing", sample={"pairs": sorted(pairs)})
    else:
        ctx.violation("R14.2", "is_merge_origin:pairing", "merge-origin test pairs %s; the top row of a merge has rowSpan>1 and "
                      "hMerge, the left column gridSpan>1 and vMerge, so each span must be paired with the other axis' flag" % sorted(pairs),
                      file=p.file, line=p.line)

    # -- R14.3 -------------------------------------------------------------------------------------------
    ctx.rule("R14.3", "regions written by merge / scanned by the refusal / reset by split, as intervals over the range extents")
    regions = {}
    for name in ("iter_tcs", "iter_top_row_tcs", "iter_left_col_tcs", "iter_except_left_col_tcs", "iter_except_top_row_tcs"):
        f = rng.methods.get(name)
        if f is None:
            raise AnalysisError("anchor vanished: TcRange.%s" % name)
        r = decode_iter(f)
        if r is None:
            ctx.error("TcRange.%s" % name, "iterator shape not recognised (expected slices of tr_lst / tc_lst)")
            continue
        regions[name] = r

    def same(r, exp):
        return all(a == _P(b) for a, b in zip(r, exp))

    for attr, exp in EXPECT_REGION.items():
        key = "merge:%s" % attr
        if attr not in written:
            continue
        it = written[attr][0]
        r = regions.get(it)
        if r is None:
            ctx.error(key, "merge writes %s over %s, which is not a decoded TcRange iterator" % (attr, it))
        elif same(r, exp):
            ctx.ok("R14.3", key, sample={"attr": attr, "iterator": it, "rows": "[%r,%r)" % (r[0], r[1]), "cols": "[%r,%r)" % (r[2], r[3])})
        else:
            ctx.violation("R14.3", key, "%s is written over rows [%r,%r) x cols [%r,%r) (via %s); the statement needs rows [%s,%s) x "
                          "cols [%s,%s)" % ((attr,) + tuple(r) + (it,) + exp), file=merge.file, line=merge.line)
    mv = rng.methods.get("move_content_to_origin")
    mv_iter = None
    origin_first = False
    if mv is not None:
        for n in ast.walk(mv.node):
            if isinstance(n, ast.Call) and (dotted(n.func) or "").startswith("self.iter_"):
                mv_iter = dotted(n.func).split(".")[-1]
        src_names = {}
        for n in ast.walk(mv.node):
            if isinstance(n, ast.Assign) and isinstance(n.targets[0], ast.Name):
                src_names[n.targets[0].id] = n.value
        # origin = tcs[0]; for x in tcs[1:]: origin.append_ps_from(x)
        for n in ast.walk(mv.node):
            if isinstance(n, ast.For):
                sl = n.iter
                if isinstance(sl, ast.Name) and isinstance(src_names.get(sl.id), ast.Subscript):
                    sl = src_names[sl.id]   # the remaining cells held in a local
                if isinstance(sl, ast.Subscript) and isinstance(sl.slice, ast.Slice) and sl.slice.upper is None \
                        and prog.const(sl.slice.lower, mv.module) == 1:
                    for c in ast.walk(n):
                        if isinstance(c, ast.Call) and isinstance(c.func, ast.Attribute) and c.func.attr == "append_ps_from" \
                                and dotted(c.args[0]) == n.target.id:
                            o = src_names.get(dotted(c.func.value))
                            if isinstance(o, ast.Subscript) and prog.const(o.slice, mv.module) == 0 and dotted(o.value) == dotted(sl.value):
                                origin_first = True
    if split_form == "index-loops":
        want = (_P("top"), _P("top+rowSpan"), _P("left"), _P("left+gridSpan"))
        if split_bounds_reread:
            ctx.violation("R14.3", "split:region", "the inner loop bound re-reads %s on every outer iteration, after the loop body has reset it: "
                          "from the second row on only the first column is reset and the rest of the region stays spanned" % sorted(set(split_bounds_reread)),
                          file=split.file, line=split.line)
        elif split_region == want:
            ctx.ok("R14.3", "split:region", sample={"rows": "[top, top+rowSpan)", "cols": "[left, left+gridSpan)", "bounds": "hoisted"})
        else:
            ctx.violation("R14.3", "split:region", "split resets rows [%r,%r) x cols [%r,%r), not the origin's span" % split_region,
                          file=split.file, line=split.line)
    for user, it in (("contains_merged_cell", cmc_iter), ("split", split_iter), ("move_content_to_origin", mv_iter)):
        if user == "split" and split_form != "iterator":
            continue
        key = "%s:region" % user
        r = regions.get(it)
        if r is not None and same(r, WHOLE):
            ctx.ok("R14.3", key, sample={"iterator": it, "region": "whole rectangle"})
        else:
            ctx.violation("R14.3", key, "%s ranges over %s = %s, not the whole rectangle" % (user, it, r), file=rng.file, line=rng.line)
    if origin_first:
        ctx.ok("R14.3", "move_content_to_origin:order", sample={"origin": "first cell in reading order; the rest appended in order"})
    else:
        ctx.violation("R14.3", "move_content_to_origin:order", "content is not appended to the first cell from the remaining cells in "
                      "reading order", file=rng.file, line=mv.line if mv else rng.line)
    # extents: min / abs diff + 1; bottom = top + height; right = left + width
    from sa import paths as P_

    ext = rng.methods.get("_extents")
    if ext is None:
        raise AnalysisError("anchor vanished: TcRange._extents")
    rv = returned(ext)
    if len(rv) != 1 or not (isinstance(rv[0], ast.Tuple) and len(rv[0].elts) == 4):
        ctx.error("TcRange._extents", "the returned (left, top, width, height) tuple is not recognised")
    else:
        got = [of_expr(e) for e in rv[0].elts]

        def axis(attr):
            ks = sorted(["self._tc.%s" % attr, "self._other_tc.%s" % attr])
            return Poly.sym("min{%s|%s}" % tuple(ks)), Poly.sym("span{%s|%s}" % tuple(ks)) + Poly.const(1)

        (l_, w_), (t_, h_) = axis("col_idx"), axis("row_idx")
        if got == [l_, t_, w_, h_]:
            ctx.ok("R14.3", "TcRange._extents", sample={"start": "min(i, j)", "size": "|i - j| + 1", "order": "(left, top, width, height)"})
        else:
            ctx.violation("R14.3", "TcRange._extents", "extents are not (min, |difference|+1) per axis in (left, top, width, height) order: "
                          "a corner pair in some orientation gives the wrong rectangle (computed %s)" % [repr(g) for g in got],
                          file=rng.file, line=ext.line)
    E = ["self._extents[%d]" % i for i in range(4)]
    for prop, (want, label) in {"_bottom": (Poly.sym(E[1]) + Poly.sym(E[3]), "top + height"), "_right": (Poly.sym(E[0]) + Poly.sym(E[2]), "left + width"),
                                "_left": (Poly.sym(E[0]), "left"), "_top": (Poly.sym(E[1]), "top")}.items():
        f = rng.methods.get(prop)
        if f is None:
            raise AnalysisError("anchor vanished: TcRange.%s" % prop)
        rv = returned(f, local_only=True)
        # `self._left + width` style: the sibling properties are the extents components themselves
        sib = {"self._left": Poly.sym(E[0]), "self._top": Poly.sym(E[1])}

        class Sib(ast.NodeTransformer):
            def visit_Attribute(self_, x):
                return ast.Name(id="SIB_" + x.attr, ctx=ast.Load()) if dotted(x) in sib else self_.generic_visit(x)
        import copy as _cp

        vals = [of_expr(Sib().visit(_cp.deepcopy(e)), {"SIB__left": sib["self._left"], "SIB__top": sib["self._top"]}) for e in rv]
        if len(vals) == 1 and vals[0] == want:
            ctx.ok("R14.3", "TcRange.%s" % prop, sample={"value": label})
        elif len(vals) == 1:
            ctx.violation("R14.3", "TcRange.%s" % prop, "%s is %r, not %s of the extents" % (prop, vals[0], label), file=rng.file, line=f.line)
        else:
            ctx.error("TcRange.%s" % prop, "returned value not recognised")
    fmo = rng.methods.get("from_merge_origin")
    if fmo is None:
        raise AnalysisError("anchor vanished: TcRange.from_merge_origin")
    fx_ = _expand(prog, fmo, local_only=True)
    fval = P_.value_aliases(fx_)
    tp = fmo.node.args.args[1].arg
    corner = [n for n in ast.walk(fx_) if isinstance(n, ast.Call) and isinstance(n.func, ast.Attribute) and n.func.attr == "tc" and len(n.args) == 2]
    if len(corner) != 1:
        ctx.error("TcRange.from_merge_origin", "the far-corner lookup tbl.tc(row, col) is not recognised")
    else:
        r0, c0 = (of_expr(ast.parse(P_.full(x, fval), mode="eval").body) for x in corner[0].args)
        if (r0 == Poly.sym(tp + ".row_idx") + Poly.sym(tp + ".rowSpan") - Poly.const(1)
                and c0 == Poly.sym(tp + ".col_idx") + Poly.sym(tp + ".gridSpan") - Poly.const(1)):
            ctx.ok("R14.3", "TcRange.from_merge_origin", sample={"far_corner": "(row_idx + rowSpan - 1, col_idx + gridSpan - 1)"})
        else:
            ctx.violation("R14.3", "TcRange.from_merge_origin", "far corner of a merged region is %r, %r, not origin + span - 1: split would reset "
                          "a different rectangle than merge marked" % (r0, c0), file=rng.file, line=fmo.line)

    # -- R14.4 -------------------------------------------------------------------------------------------
    ctx.rule("R14.4", "size setters store then notify; the chain ends in the frame size = sum over all rows / columns")
    for cname, prop, store_field, attr, note, coll, frame_attr, seq in (
            ("_Column", "width", "self._gridCol", "w", "notify_width_changed", "_ColumnCollection", "width", "columns"),
            ("_Row", "height", "self._tr", "h", "notify_height_changed", "_RowCollection", "height", "rows")):
        c = tmod.classes.get(cname)
        setter = prog.lookup_setter(c, prop) if c else None
        key = "%s.%s" % (cname, prop)
        if setter is None:
            raise AnalysisError("anchor vanished: %s.%s setter" % (cname, prop))
        body = _body(setter)
        idx_store = idx_note = None
        for i, st in enumerate(body):
            for recv, a, val, ln in _stores(st):
                if recv == store_field and a == attr and dotted(val) == setter.node.args.args[1].arg:
                    idx_store = i
            if isinstance(st, ast.Expr) and isinstance(st.value, ast.Call) and dotted(st.value.func) == "self._parent." + note:
                idx_note = i
        cond = any(isinstance(st, (ast.If, ast.Try, ast.While, ast.For)) for st in body)
        if idx_store is not None and idx_note is not None and idx_store < idx_note and not cond:
            ctx.ok("R14.4", key, sample={"store": "%s.%s = value" % (store_field, attr), "then": "self._parent.%s()" % note})
        else:
            ctx.violation("R14.4", key, "setter does not store the value and then unconditionally notify (store@%s notify@%s "
                          "conditional=%s): the frame size no longer equals the sum" % (idx_store, idx_note, cond),
                          file=setter.file, line=setter.line)
        cc = tmod.classes.get(coll)
        fwd = cc.methods.get(note) if cc else None
        if fwd is not None and any(isinstance(n, ast.Call) and dotted(n.func) == "self._parent." + note for n in ast.walk(fwd.node)):
            ctx.ok("R14.4", "%s.%s" % (coll, note), nontrivial=False)
        else:
            ctx.violation("R14.4", "%s.%s" % (coll, note), "collection does not forward the notification to the table", file=tmod.relpath,
                          line=fwd.line if fwd else 1)
        tbl = tmod.classes.get("Table")
        tn = tbl.methods.get(note) if tbl else None
        good = False
        if tn is not None:
            from sa.inline import expand as _exp14
            from sa import paths as P14

            tnx = _exp14(prog, tn, depth=3, local_only=True)   # a helper shared by the two notifications is read in place
            locs = P14.value_aliases(tnx)
            for recv, a, val, ln in _stores(tnx):
                if recv == "self._graphic_frame" and a == frame_attr:
                    v = val
                    for _ in range(6):
                        if isinstance(v, ast.Name) and v.id in locs:
                            v = locs[v.id]
                        elif isinstance(v, ast.Call) and dotted(v.func) in ("Emu", "int", "Length") and len(v.args) == 1:
                            v = v.args[0]
                        else:
                            break
                    if isinstance(v, ast.Call) and dotted(v.func) == "sum" and v.args:
                        comp = v.args[0]
                        if isinstance(comp, ast.Name) and comp.id in locs:
                            comp = locs[comp.id]
                        if isinstance(comp, (ast.ListComp, ast.GeneratorExp)) and len(comp.generators) == 1 and not comp.generators[0].ifs:
                            g = comp.generators[0]
                            it_ = locs.get(g.iter.id, g.iter) if isinstance(g.iter, ast.Name) else g.iter
                            good = dotted(it_) == "self." + seq and isinstance(g.target, ast.Name) and dotted(comp.elt) == "%s.%s" % (g.target.id, prop)
        if good:
            ctx.ok("R14.4", "Table.%s" % note, sample={"assigns": "self._graphic_frame.%s" % frame_attr, "value": "sum(%s.%s for all %s)" % (seq[:-1], prop, seq)})
        else:
            ctx.violation("R14.4", "Table.%s" % note, "frame %s is not assigned the sum of every %s %s" % (frame_attr, seq[:-1], prop),
                          file=tmod.relpath, line=tn.line if tn else 1)

    # -- R14.5 -------------------------------------------------------------------------------------------
    ctx.rule("R14.5", "construction: counts and sizes of new_tbl; nobody else adds rows / cells / grid columns")
    tblc = omod.classes.get("CT_Table")
    nt = tblc.methods.get("new_tbl") if tblc else None
    if nt is None:
        raise AnalysisError("anchor vanished: CT_Table.new_tbl")
    params = [a.arg for a in nt.node.args.args]
    W = ("Emu", "int", "Length")
    # pre-loop environment: quotient of a floor division is an opaque symbol q; the matching remainder is a - q*b, so
    # identities hold for every value of the division (divmod / `//` with `%`)
    pre = {}

    def quotient(a_, b_):
        return Poly.sym("<%s // %s>" % (ast.unparse(a_), ast.unparse(b_)))

    def pre_expr(e):
        if isinstance(e, ast.BinOp) and isinstance(e.op, ast.FloorDiv):
            return quotient(e.left, e.right)
        if isinstance(e, ast.BinOp) and isinstance(e.op, ast.Mod) and not isinstance(e.left, ast.Constant):
            return of_expr(e.left, pre, W) - quotient(e.left, e.right) * of_expr(e.right, pre, W)
        return of_expr(e, pre, W)

    loops = []
    lists = {}   # local -> [(count Poly, value Poly)]: sizes precomputed into a list (`[share] * (n - 1)` + the remainder)
    positive = {Poly.sym(p_) for p_ in params if p_ in ("rows", "cols")}

    def list_value(e):
        if isinstance(e, ast.Name) and e.id in lists:
            return list(lists[e.id])
        if isinstance(e, ast.List) and not any(isinstance(x, ast.Starred) for x in e.elts):
            return [(Poly.const(1), pre_expr(x)) for x in e.elts]
        if isinstance(e, ast.ListComp) and len(e.generators) == 1 and not e.generators[0].ifs and isinstance(e.generators[0].iter, ast.Call) \
                and dotted(e.generators[0].iter.func) == "range" and len(e.generators[0].iter.args) == 1 \
                and not any(isinstance(x, ast.Name) and x.id == getattr(e.generators[0].target, "id", None) for x in ast.walk(e.elt)):
            return [(of_expr(e.generators[0].iter.args[0], pre, W), pre_expr(e.elt))]
        if isinstance(e, ast.BinOp) and isinstance(e.op, ast.Mult) and isinstance(e.left, ast.List) and len(e.left.elts) == 1:
            return [(of_expr(e.right, pre, W), pre_expr(e.left.elts[0]))]
        if isinstance(e, ast.BinOp) and isinstance(e.op, ast.Add):
            l_, r_ = list_value(e.left), list_value(e.right)
            return l_ + r_ if l_ is not None and r_ is not None else None
        return None

    def list_stmt(st):
        """appends: `L.append(E)`, also under `if <rows|cols> > 0:` (the counts are positive: a precondition of the property)"""
        if isinstance(st, ast.Expr) and isinstance(st.value, ast.Call) and isinstance(st.value.func, ast.Attribute) and st.value.func.attr == "append" \
                and dotted(st.value.func.value) in lists and len(st.value.args) == 1:
            lists[dotted(st.value.func.value)].append((Poly.const(1), pre_expr(st.value.args[0])))
            return True
        if isinstance(st, ast.If) and not st.orelse and isinstance(st.test, ast.Compare) and len(st.test.ops) == 1:
            l_, r_ = of_expr(st.test.left, pre, W), of_expr(st.test.comparators[0], pre, W)
            op_ = st.test.ops[0]
            holds = (isinstance(op_, ast.Gt) and l_ in positive and r_ == Poly.const(0)) or (isinstance(op_, ast.GtE) and l_ in positive and r_ == Poly.const(1))
            if holds and all(list_stmt(x) for x in st.body):
                ctx.assumptions.append("R14.5: `%s` holds (rows and cols of a new table are positive)" % ast.unparse(st.test))
                return True
        return False

    _inl.use_types(_Types(prog, M))   # `tbl.add_tr(...).add_tcs(n)`: helpers of the row element are read in place too
    try:
        ntx = _expand(prog, nt, local_only=True, skip_names=("add_tr", "add_gridCol", "add_tc", "_add_tr", "_add_gridCol", "_add_tc"))
    finally:
        _inl.use_types(None)
    for st in [s_ for s_ in ntx.body if not (isinstance(s_, ast.Expr) and isinstance(s_.value, ast.Constant))]:
        if list_stmt(st):
            continue
        if isinstance(st, ast.Assign) and len(st.targets) == 1:
            t = st.targets[0]
            if isinstance(t, ast.Name):
                lv = list_value(st.value)
                if lv is not None and not isinstance(st.value, ast.Name):
                    lists[t.id] = lv
                elif isinstance(st.value, ast.Name) and st.value.id in lists:
                    lists[t.id] = lists[st.value.id]
                elif isinstance(st.value, (ast.BinOp, ast.Name, ast.Constant)):
                    pre[t.id] = pre_expr(st.value)
            elif isinstance(t, ast.Tuple) and len(t.elts) == 2 and isinstance(st.value, ast.Call) and dotted(st.value.func) == "divmod" \
                    and len(st.value.args) == 2 and all(isinstance(x, ast.Name) for x in t.elts):
                a_, b_ = st.value.args
                q = quotient(a_, b_)
                pre[t.elts[0].id] = q
                pre[t.elts[1].id] = of_expr(a_, pre, W) - q * of_expr(b_, pre, W)
        if isinstance(st, ast.For):
            # `for v in [E(i) for i in range(n)]: body` is `for i in range(n): v = E(i); body` (E is an expression of the index)
            it_ = st.iter
            if isinstance(it_, (ast.ListComp, ast.GeneratorExp)) and len(it_.generators) == 1 and not it_.generators[0].ifs \
                    and isinstance(it_.generators[0].iter, ast.Call) and dotted(it_.generators[0].iter.func) == "range" \
                    and isinstance(it_.generators[0].target, ast.Name) and isinstance(st.target, ast.Name) and not st.orelse:
                asg_ = ast.copy_location(ast.Assign(targets=[ast.Name(id=st.target.id, ctx=ast.Store())], value=it_.elt, type_comment=None), st)
                st = ast.copy_location(ast.For(target=it_.generators[0].target, iter=it_.generators[0].iter, body=[asg_] + list(st.body), orelse=[],
                                               type_comment=None), st)
                ast.fix_missing_locations(st)
            loops.append(st)

    def loop_sum(loop, addcall, kw):
        """Total of the per-iteration argument `kw` of `addcall` over `for i in range(n)`.  The loop body is executed
        symbolically twice - for an ordinary iteration (`i == n-1` false) and for the last one (true); locals assigned in
        the body are tracked (straight-line assignments, `if i == n-1:` blocks, conditional expressions on that test).
        total = (n-1) * ordinary + last.  Returns (n, total, call) or None when the loop has another shape."""
        if isinstance(loop.iter, ast.Name) and loop.iter.id in lists and isinstance(loop.target, ast.Name):
            # sizes taken from a precomputed list: total = sum(count_k * value_k), iterations = sum(count_k)
            calls = [c for c in ast.walk(loop) if isinstance(c, ast.Call) and isinstance(c.func, ast.Attribute) and c.func.attr == addcall]
            if len(calls) != 1 or any(isinstance(x, (ast.If, ast.Break, ast.Continue, ast.While)) for x in ast.walk(loop)):
                return None
            c = calls[0]
            arg = next((k.value for k in c.keywords if k.arg == kw), None) or (c.args[0] if c.args else None)
            if arg is None:
                return None
            n_, tot = Poly(), Poly()
            for cnt_, val_ in lists[loop.iter.id]:
                n_ = n_ + cnt_
                tot = tot + cnt_ * of_expr(arg, dict(pre, **{loop.target.id: val_}), W)
            return n_, tot, c
        if not (isinstance(loop.iter, ast.Call) and dotted(loop.iter.func) == "range" and len(loop.iter.args) == 1
                and isinstance(loop.target, ast.Name)):
            return None
        n = of_expr(loop.iter.args[0])
        i = loop.target.id
        # comparisons given a name in the loop body (bound once)
        flagdefs = {}
        for st_ in loop.body:
            if isinstance(st_, ast.Assign) and len(st_.targets) == 1 and isinstance(st_.targets[0], ast.Name) \
                    and isinstance(st_.value, (ast.Compare, ast.UnaryOp)):
                nm_ = st_.targets[0].id
                if sum(1 for x in ast.walk(loop) if isinstance(x, ast.Name) and x.id == nm_ and isinstance(x.ctx, ast.Store)) == 1:
                    flagdefs[nm_] = st_.value

        def split_test(t):
            """(truth in an ordinary iteration i in [0, n-2], truth in the last iteration i == n-1) of a comparison that is affine
            in the loop variable, when both are the same for every n; None otherwise.  `i == n-1`, `i != n-1`, `i < n-1`,
            `i + 1 >= n`, `last - i > 0` ... all separate the last iteration from the others."""
            neg = False
            while True:
                if isinstance(t, ast.UnaryOp) and isinstance(t.op, ast.Not):
                    t, neg = t.operand, not neg
                elif isinstance(t, ast.Name) and t.id in flagdefs:
                    t = flagdefs[t.id]     # `is_last = i == n - 1` named before it is tested
                else:
                    break
            if not (isinstance(t, ast.Compare) and len(t.ops) == 1):
                return None
            try:
                d = of_expr(t.left, dict(pre, **{i: Poly.sym(i)}), W) - of_expr(t.comparators[0], dict(pre, **{i: Poly.sym(i)}), W)
            except Exception:
                return None
            if i not in d.symbols():
                return None
            at = lambda k: d.subst(i, n - Poly.const(k))
            k0, c1, c2 = at(1), at(1) - at(2), at(2) - at(3)
            if not (k0.is_const() and c1.is_const() and c1 == c2 and (c1.const_value() or 0) != 0):
                return None
            k0, c = k0.const_value() or 0, c1.const_value()
            hi = k0 - c   # the value nearest to the last iteration's; the others move away from it in the direction of -c
            op = t.ops[0]
            if isinstance(op, (ast.Eq, ast.NotEq)):
                q = k0 / c
                if q > 0 and q == int(q):
                    return None   # some ordinary iteration also satisfies the equality
                o_, l_ = False, k0 == 0
                if isinstance(op, ast.NotEq):
                    o_, l_ = not o_, not l_
            else:
                strict = isinstance(op, (ast.Lt, ast.Gt))
                below = isinstance(op, (ast.Lt, ast.LtE))
                if not isinstance(op, (ast.Lt, ast.LtE, ast.Gt, ast.GtE)):
                    return None
                holds = lambda v: (v < 0 if strict else v <= 0) if below else (v > 0 if strict else v >= 0)
                l_ = holds(k0)
                # ordinary values: hi, hi - c, hi - 2c, ... (monotone): uniform iff the first one already lies on the side they move to
                if (c > 0) == below:
                    if not holds(hi):
                        return None
                    o_ = True
                else:
                    if holds(hi):
                        return None
                    o_ = False
            return (o_ != neg, l_ != neg)

        def is_last_test(t):
            r_ = split_test(t)
            return r_ is not None

        def arm(st_or_e, last):
            r_ = split_test(st_or_e.test)
            return r_[1] if last else r_[0]

        def ev(e, env, last):
            if isinstance(e, ast.IfExp) and is_last_test(e.test):
                return ev(e.body if arm(e, last) else e.orelse, env, last)
            if isinstance(e, ast.Call) and dotted(e.func) in W and len(e.args) == 1:
                return ev(e.args[0], env, last)
            if isinstance(e, ast.BinOp) and isinstance(e.op, (ast.Add, ast.Sub, ast.Mult)):
                l, r = ev(e.left, env, last), ev(e.right, env, last)
                return l + r if isinstance(e.op, ast.Add) else l - r if isinstance(e.op, ast.Sub) else l * r
            return of_expr(e, env, W)

        def run(last):
            env = dict(pre)
            val = None
            for st in loop.body:
                if isinstance(st, ast.If) and is_last_test(st.test):
                    for s2 in (st.body if arm(st, last) else st.orelse):   # the arm this iteration takes (no else: nothing happens)
                        if isinstance(s2, ast.Assign) and isinstance(s2.targets[0], ast.Name):
                            env[s2.targets[0].id] = ev(s2.value, env, last)
                        elif isinstance(s2, ast.AugAssign) and isinstance(s2.target, ast.Name) and isinstance(s2.op, (ast.Add, ast.Sub)) \
                                and s2.target.id in env:
                            d_ = ev(s2.value, env, last)
                            env[s2.target.id] = env[s2.target.id] + d_ if isinstance(s2.op, ast.Add) else env[s2.target.id] - d_
                        else:
                            return None
                    continue
                calls = [c for c in ast.walk(st) if isinstance(c, ast.Call) and isinstance(c.func, ast.Attribute) and c.func.attr == addcall]
                if calls:
                    c = calls[0]
                    arg = next((k.value for k in c.keywords if k.arg == kw), None)
                    if arg is None and c.args:
                        arg = c.args[0]
                    if arg is None:
                        return None
                    val = (ev(arg, env, last), c)
                    if isinstance(st, ast.Assign):
                        continue
                elif isinstance(st, ast.Assign) and isinstance(st.targets[0], ast.Name):
                    env[st.targets[0].id] = ev(st.value, env, last)
                elif isinstance(st, ast.AugAssign) and isinstance(st.target, ast.Name) and isinstance(st.op, (ast.Add, ast.Sub)) and st.target.id in env:
                    d_ = ev(st.value, env, last)
                    env[st.target.id] = env[st.target.id] + d_ if isinstance(st.op, ast.Add) else env[st.target.id] - d_
                elif isinstance(st, (ast.If, ast.While, ast.Try)):
                    return None  # other control flow: not this idiom
            return val

        o, l = run(False), run(True)
        if o is None or l is None:
            return None
        # a variable re-assigned in the last iteration must not be read by an ordinary iteration after it (it is the last)
        return n, (n - Poly.const(1)) * o[0] + l[0], l[1]

    found = {}
    for lp in loops:
        for addcall, kw, total_param, what in (("add_gridCol", "width", "width", "cols"), ("add_tr", "height", "height", "rows")):
            r = loop_sum(lp, addcall, kw)
            if r is not None:
                found[addcall] = (lp, r, total_param, what)
    for addcall, total_param, what in (("add_gridCol", "width", "cols"), ("add_tr", "height", "rows")):
        key = "new_tbl:%s" % addcall
        if addcall not in found:
            ctx.error(key, "construction loop for %s not recognised" % addcall)
            continue
        lp, (n, total, call), tp, w = found[addcall]
        probs = []
        if n != Poly.sym(what):
            probs.append("loop runs %r times, not %s" % (n, what))
        if total != Poly.sym(total_param):
            probs.append("sizes sum to %r, not %s" % (total, total_param))
        if probs and any(" if " in str(sy_) or "(" in str(sy_).replace("//", "").strip("<>").replace("<", "").replace(">", "") for sy_ in total.symbols()):
            # the sum contains a term this evaluator could not open (a conditional, a call): not a decided difference
            ctx.error(key, "sum of the sizes not evaluated: %r" % (total,))
        elif probs:
            ctx.violation("R14.5", key, "; ".join(probs), file=nt.file, line=lp.lineno)
        else:
            ctx.ok("R14.5", key, sample={"count": what, "sum_of_sizes": "%s (identity holds for every value of the floor division)" % total_param})
    # cells per row
    good = False
    cells_seen = False
    if "add_tr" in found:
        lp = found["add_tr"][0]
        trvar = None
        for st in lp.body:
            if isinstance(st, ast.Assign) and isinstance(st.value, ast.Call) and isinstance(st.value.func, ast.Attribute) \
                    and st.value.func.attr == "add_tr":
                trvar = st.targets[0].id
        for st in lp.body:
            if isinstance(st, ast.For) and isinstance(st.iter, ast.Call) and dotted(st.iter.func) == "range" \
                    and len(st.iter.args) == 1 and of_expr(st.iter.args[0]) == Poly.sym("cols"):
                calls = [c for c in ast.walk(st) if isinstance(c, ast.Call) and dotted(c.func) in ("%s.add_tc" % trvar, "%s._add_tc" % trvar)]
                conds = [c for c in ast.walk(st) if isinstance(c, (ast.If, ast.Break, ast.Continue))]
                good = len(calls) == 1 and not conds
            if isinstance(st, ast.For) and isinstance(st.iter, ast.Call) and dotted(st.iter.func) == "range":
                cells_seen = True
            if isinstance(st, ast.For) and isinstance(st.iter, ast.Name) and st.iter.id in lists:
                cells_seen = True
                n_cells = Poly()
                for cnt_, _v in lists[st.iter.id]:
                    n_cells = n_cells + cnt_
                calls = [c for c in ast.walk(st) if isinstance(c, ast.Call) and dotted(c.func) == "%s.add_tc" % trvar]
                conds = [c for c in ast.walk(st) if isinstance(c, (ast.If, ast.Break, ast.Continue))]
                good = n_cells == Poly.sym("cols") and len(calls) == 1 and not conds
    if "add_tr" not in found or (not good and not cells_seen):
        ctx.error("new_tbl:add_tc", "the loop giving each row its cells is not recognised")
    elif good:
        ctx.ok("R14.5", "new_tbl:add_tc", sample={"cells_per_row": "cols, unconditionally, in every row"})
    else:
        ctx.violation("R14.5", "new_tbl:add_tc", "rows are not given exactly `cols` cells each", file=nt.file, line=nt.line)
    # the frame is created with the same size the table is built for
    gf = prog.cls("pptx.oxml.shapes.graphfrm", "CT_GraphicalObjectFrame")
    ntg, ngf = gf.methods.get("new_table_graphicFrame"), gf.methods.get("new_graphicFrame")
    if not (ntg and ngf):
        raise AnalysisError("anchor vanished: new_table_graphicFrame / new_graphicFrame")
    c1 = [n for n in ast.walk(ntg.node) if isinstance(n, ast.Call) and dotted(n.func) == "cls.new_graphicFrame"]
    c2 = [n for n in ast.walk(ntg.node) if isinstance(n, ast.Call) and dotted(n.func) == "CT_Table.new_tbl"]
    good = False
    if c1 and c2 and not c1[0].keywords and not c2[0].keywords:
        gparams = [a.arg for a in ngf.node.args.args][1:]
        tparams = params[1:]
        a1 = dict(zip(gparams, [dotted(a) for a in c1[0].args]))
        a2 = dict(zip(tparams, [dotted(a) for a in c2[0].args]))
        own = [a.arg for a in ntg.node.args.args]
        good = (a1.get("cx") == a2.get("width") and a1.get("cy") == a2.get("height") and a1.get("cx") in own and a1.get("cy") in own
                and a1.get("cx") != a1.get("cy") and a2.get("rows") == "rows" and a2.get("cols") == "cols")
    if good:
        ctx.ok("R14.5", "new_table_graphicFrame", sample={"frame_ext": "(cx, cy)", "table_size": "(width=cx, height=cy)", "rows_cols": "passed through"})
    else:
        ctx.violation("R14.5", "new_table_graphicFrame", "the frame extents and the table's (width, height) / (rows, cols) are not the "
                      "same values", file=ntg.file, line=ntg.line)
    # who may add / remove structure
    structural = {"add_tr", "_add_tr", "add_tc", "_add_tc", "add_gridCol", "_add_gridCol", "_insert_tr", "_insert_tc", "_insert_gridCol",
                  "_remove_tr", "_remove_tc", "_remove_gridCol"}
    # who may change the structure: new_tbl, and the *primitives* - methods of the table element classes that add to their own
    # element (`self._add_tc()`); calling a primitive is changing the structure too, so the set of structural operations is closed
    # under "primitive that calls one" and every other caller is reported
    structural = set(structural)
    primitives = set()
    changed_ = True
    while changed_:
        changed_ = False
        for g in prog.all_functions():
            if g.module is not omod or g.cls is None or g.qualname == "CT_Table.new_tbl":
                continue
            for n in ast.walk(g.node):
                if isinstance(n, ast.Call) and isinstance(n.func, ast.Attribute) and n.func.attr in structural and dotted(n.func.value) == "self" \
                        and g.name not in structural:
                    structural.add(g.name)
                    primitives.add(g.qualname)
                    changed_ = True
                elif isinstance(n, ast.Call) and isinstance(n.func, ast.Attribute) and n.func.attr in structural and dotted(n.func.value) == "self":
                    primitives.add(g.qualname)
    nsite = 0

    def _only_from_new_tbl(g, depth=0):
        """a private helper every call of which (by name, anywhere in the program) is made by new_tbl or by another such helper:
        part of new_tbl's own computation"""
        if depth > 3 or not g.name.startswith("_") or g.name.startswith("__"):
            return False
        callers_ = [h for h in prog.all_functions() if h is not g and any(
            isinstance(c_, ast.Call) and ((isinstance(c_.func, ast.Attribute) and c_.func.attr == g.name)
                                          or (isinstance(c_.func, ast.Name) and c_.func.id == g.name)) for c_ in ast.walk(h.node))]
        return bool(callers_) and all(h.qualname == "CT_Table.new_tbl" or _only_from_new_tbl(h, depth + 1) for h in callers_)

    _ofn = {}
    for g in prog.all_functions():
        for n in ast.walk(g.node):
            if isinstance(n, ast.Call) and isinstance(n.func, ast.Attribute) and n.func.attr in structural:
                nsite += 1
                key = "structure:%s" % g.qualname
                if g.qualname not in _ofn:
                    _ofn[g.qualname] = g.module is omod and _only_from_new_tbl(g)
                if g.qualname == "CT_Table.new_tbl" or _ofn[g.qualname] or (g.qualname in primitives and dotted(n.func.value) == "self"):
                    ctx.ok("R14.5", key + ":" + n.func.attr, nontrivial=False)
                else:
                    ctx.violation("R14.5", key, "%s adds or removes table structure (%s) outside new_tbl: nothing keeps every row at "
                                  "the same number of cells" % (g.qualname, n.func.attr), file=g.file, line=n.lineno)
    # removal of a:tc / a:tr through the generic lxml API inside the table modules
    for m in (tmod, omod):
        for g in prog.all_functions():
            if g.module is not m:
                continue
            for n in ast.walk(g.node):
                if isinstance(n, ast.Call) and isinstance(n.func, ast.Attribute) and n.func.attr in ("remove", "insert", "addnext", "addprevious") \
                        and g.qualname not in ("CT_TableCell.append_ps_from",):
                    ctx.violation("R14.5", "structure:%s" % g.qualname, "%s restructures the table through lxml %s()" % (g.qualname, n.func.attr),
                                  file=g.file, line=n.lineno)
    ctx.count("structure_sites", nsite)
    ctx.count("iterators_decoded", len(regions))

    # -- R14.3 (grid indices) ---------------------------------------------------------------------------
    # row_idx / col_idx are positions among the rows of the table / the cells of the row.  `parent.<x>_lst.index(self)` is that by
    # construction; `parent.index(self) - k` counts every child of the parent and is right only when the schema puts exactly k
    # elements in front of the first <x> in every valid parent (decided on the content-model automaton).
    def preceding_counts(tq, cq, bound=6):
        A = S.automaton(tq)
        out, seen, todo = set(), set(), [(A.run([]), 0)]
        while todo:
            st, k = todo.pop()
            if not st or (st, k) in seen or k > bound:
                if k > bound:
                    out.add(None)
                continue
            seen.add((st, k))
            for sym in A.live_symbols(st):
                if sym == cq:
                    out.add(k)
                else:
                    todo.append((A.step(st, sym), k + 1))
        return out

    trc = omod.classes.get("CT_TableRow")
    for owner, prop, ptag, ctag, lst in ((trc, "row_idx", "a:tbl", "a:tr", "tr_lst"), (tcc, "col_idx", "a:tr", "a:tc", "tc_lst")):
        f = owner.methods.get(prop) if owner else None
        if f is None:
            raise AnalysisError("anchor vanished: %s.%s" % (owner.name if owner else "?", prop))
        key = "%s.%s" % (owner.name, prop)
        rv_ = returned(f, local_only=True)

        def strip_cast(e):
            class C(ast.NodeTransformer):
                def visit_Call(self, n):
                    self.generic_visit(n)
                    return n.args[1] if dotted(n.func) == "cast" and len(n.args) == 2 else n
            return C().visit(e)
        if len(rv_) != 1:
            ctx.error(key, "the index computation is not a single returned expression")
            continue
        e = strip_cast(rv_[0])
        k_off = 0
        if isinstance(e, ast.BinOp) and isinstance(e.op, ast.Sub) and isinstance(e.right, ast.Constant) and isinstance(e.right.value, int):
            e, k_off = e.left, e.right.value
        src_ = ast.unparse(e)
        if src_ == "self.getparent().%s.index(self)" % lst and k_off == 0:
            ctx.ok("R14.3", key, sample={"index": "position in the parent's %s" % lst})
        elif src_ == "self.getparent().index(self)":
            pq, cq = prog.qn(ptag), prog.qn(ctag)
            counts = set()
            for tq in sorted(x for x in S.elem_decls.get(pq, ()) if x in S.ctypes):
                counts |= preceding_counts(tq, cq)
            if counts == {k_off}:
                ctx.ok("R14.3", key, sample={"index": "position among all children minus %d" % k_off,
                                             "schema": "exactly %d element(s) precede the first <%s> in <%s>" % (k_off, ctag, ptag)})
            else:
                ctx.violation("R14.3", key, "the index is the position among all children of <%s> minus %d, but the schema allows %s element(s) in front "
                              "of the first <%s> (optional ones may be absent): the grid index is off, merges and splits act on other cells"
                              % (ptag, k_off, sorted(str(c) for c in counts), ctag), file=f.file, line=f.line)
        else:
            ctx.error(key, "index computation `%s` not recognised" % ast.unparse(rv_[0])[:80])

    # -- R14.7 -------------------------------------------------------------------------------------------
    ctx.rule("R14.7", "len(), indexing and iteration of the cell / row / column collections range over the same list of elements")
    from sa import paths as _P147

    ncoll = 0
    for c in dict.values(tmod.classes):
        ln, gi, it = prog.lookup(c, "__len__"), prog.lookup(c, "__getitem__"), prog.lookup(c, "__iter__")   # own or inherited
        if ln is None or (gi is None and it is None):
            continue
        ncoll += 1
        key = "%s.__len__" % c.name
        lval = _P147.value_aliases(ln.node)
        lens = [_P147.full(r.value.args[0], lval) for r in ast.walk(ln.node) if isinstance(r, ast.Return) and isinstance(r.value, ast.Call)
                and dotted(r.value.func) == "len" and len(r.value.args) == 1]
        items = set()
        if gi is not None:
            gval = _P147.value_aliases(gi.node)
            ip = gi.params[1] if len(gi.params) > 1 else None
            for n in ast.walk(gi.node):
                if isinstance(n, ast.Subscript) and isinstance(n.ctx, ast.Load) and ip and any(isinstance(x, ast.Name) and x.id == ip for x in ast.walk(n.slice)):
                    items.add(_P147.full(n.value, gval))
        if it is not None:
            ival = _P147.value_aliases(it.node)
            for n in ast.walk(it.node):
                if isinstance(n, (ast.For, ast.comprehension)):
                    src_ = n.iter
                    while isinstance(src_, ast.Call) and dotted(src_.func) in ("iter", "list", "tuple", "enumerate") and src_.args:
                        src_ = src_.args[0]
                    items.add(_P147.full(src_, ival))
        def through_props(txt, depth=0):
            """`self.<property>` read as the one expression the property of this (concrete) class returns"""
            if depth > 2 or not txt.startswith("self.") or "." in txt[5:] or "(" in txt:
                return txt
            pr = prog.lookup(c, txt[5:])
            if pr is not None and pr.kind in ("property", "lazyproperty"):
                rs_ = [r_.value for r_ in ast.walk(pr.node) if isinstance(r_, ast.Return) and r_.value is not None]
                if len(rs_) == 1:
                    return through_props(_P147.full(rs_[0], _P147.value_aliases(pr.node)), depth + 1)
            return txt

        lens = [through_props(x) for x in lens]
        items = {through_props(x) for x in items if x.startswith("self.")}
        if len(lens) != 1 or not items:
            ctx.error(key, "length / item sources not recognised (len of %s; items from %s)" % (lens, sorted(items)))
            continue
        L = lens[0]
        if L in ("self", "list(self)", "tuple(self)") or L.replace(" ", "") in ("[xforxinself]",):
            ctx.ok("R14.7", key, nontrivial=False)     # the length of what iteration yields: consistent by construction
            continue
        if all(x == L for x in items):
            ctx.ok("R14.7", key, sample={"collection": c.name, "list": L})
            continue
        other = sorted(x for x in items if x != L)[0]
        if other.startswith(L + ".") and other[len(L) + 1:].endswith("_lst") and "." not in other[len(L) + 1:]:
            # the length is taken of the element itself: lxml counts every child element, whatever its tag
            child = other[len(L) + 1:-4]
            ini = c.methods.get("__init__")
            ecls = None
            for a_ in (ini.node.args.args if ini else []):
                if a_.annotation is not None and ("self._" + a_.arg == L or "self." + a_.arg == L):
                    r_ = prog.resolve(c.module, ast.unparse(a_.annotation).strip("'\""))
                    ecls = r_ if hasattr(r_, "methods") else prog._anywhere("class", ast.unparse(a_.annotation).strip("'\""))
            extra = None
            if ecls is not None:
                decls = [d for d in M.child_decls(ecls)]
                mine = [d for d in decls if d.prop == child]
                succ = sorted({s_ for d in mine for s_ in (d.successors or ())})
                others = sorted({t for d in decls if d.prop != child for t in d.tags} | set(succ))
                extra = others
            if extra:
                ctx.violation("R14.7", key, "%s.__len__ is len(%s), the number of *all* child elements of the element, while items come from `%s`: "
                              "%s also admits %s (PowerPoint writes a:extLst there), so len() exceeds the number of items and the last indexes "
                              "raise" % (c.name, L, other, ecls.name, ", ".join(extra)), file=ln.file, line=ln.line)
            else:
                ctx.error(key, "len(%s) counts all children of the element while items come from `%s`; whether the element admits other children "
                          "was not decided" % (L, other))
        else:
            ctx.error(key, "length is taken of `%s`, items of `%s`: whether these are the same list is not decided" % (L, other))
    ctx.count("collections", ncoll)

    # -- R14.6 -------------------------------------------------------------------------------------------
    ctx.rule("R14.6", "the emptiness test that lets a merge skip or overwrite a cell's text looks at every kind of paragraph content")
    tb = prog.cls("pptx.oxml.text", "CT_TextBody")
    ie = prog.lookup(tb, "is_empty") if tb else None
    apf = tcc.methods.get("append_ps_from")
    if ie is None or apf is None:
        raise AnalysisError("anchor vanished: CT_TextBody.is_empty / CT_TableCell.append_ps_from")
    if not any(isinstance(n, ast.Attribute) and n.attr == "is_empty" for n in ast.walk(_expand(prog, apf, local_only=True))):
        ctx.ok("R14.6", "CT_TableCell.append_ps_from", nontrivial=False)   # no emptiness shortcut: every paragraph is moved
    else:
        iex = _expand(prog, ie, depth=2, local_only=True)
        FULL = {"text", "content_children"}                      # readers that cover a:r, a:br and a:fld
        PART = {"r_lst": "a:r", "br_lst": "a:br", "fld_lst": "a:fld"}
        # names bound to one kind of content (`for r in p.r_lst`): their `.text` is that run's text, not the paragraph's
        part_vars = set()
        for n in ast.walk(iex):
            if isinstance(n, (ast.For, ast.comprehension)) and isinstance(n.iter, ast.Attribute) and n.iter.attr in PART:
                part_vars |= {x.id for x in ast.walk(n.target) if isinstance(x, ast.Name)}
        seen_full = {n.attr for n in ast.walk(iex) if isinstance(n, ast.Attribute) and n.attr in FULL and dotted(n.value) != "self"
                     and not (isinstance(n.value, ast.Name) and n.value.id in part_vars)}
        seen_part = {PART[n.attr] for n in ast.walk(iex) if isinstance(n, ast.Attribute) and n.attr in PART and dotted(n.value) != "self"}
        if seen_full:
            ctx.ok("R14.6", "CT_TextBody.is_empty", sample={"decides_on": sorted(seen_full), "covers": ["a:r", "a:br", "a:fld"]})
        elif seen_part and seen_part != set(PART.values()):
            ctx.violation("R14.6", "CT_TextBody.is_empty", "emptiness is decided on %s only: a cell whose text comes from %s counts as empty, and a merge "
                          "drops (spanned cell) or overwrites (origin cell) that text" % (sorted(seen_part), sorted(set(PART.values()) - seen_part)),
                          file=ie.file, line=ie.line)
        elif seen_part:
            ctx.ok("R14.6", "CT_TextBody.is_empty", sample={"decides_on": sorted(seen_part)})
        else:
            ctx.error("CT_TextBody.is_empty", "what the emptiness test reads of the paragraph is not recognised")
