"""String templates: the literal pieces and the holes of a string-building expression, whichever way it is spelled.

    "/ppt/slides/slide%d.xml" % n            "/ppt/slides/slide{}.xml".format(n)
    f"/ppt/slides/slide{n}.xml"              "/ppt/slides/slide" + str(n) + ".xml"

all give  ["/ppt/slides/slide", Hole(n), ".xml"].  `template_of(expr, resolve)` returns that list or None when the expression
is not a string template it understands; `resolve(name-node)` may return the expression a local name stands for (a template held
in a variable or constant).  Adjacent literals are merged.
"""

from __future__ import annotations

import ast
import re


class Hole:
    __slots__ = ("expr", "conv")

    def __init__(self, expr, conv="s"):
        self.expr, self.conv = expr, conv

    def __repr__(self):
        return "{%s:%s}" % (ast.unparse(self.expr), self.conv)


def _merge(parts):
    out = []
    for p in parts:
        if isinstance(p, str) and out and isinstance(out[-1], str):
            out[-1] += p
        elif p != "":
            out.append(p)
    return out


_PCT = re.compile(r"%(?:\((\w+)\))?[-+ #0]*\d*(?:\.\d+)?([sdirfxXeEgGc%])")
_BRACE = re.compile(r"\{\{|\}\}|\{(\w*)(?:![rsa])?(?::([^{}]*))?\}")


def template_of(e, resolve=None, const=None, depth=0):
    if depth > 6:
        return None
    if isinstance(e, ast.Constant) and isinstance(e.value, str):
        return [e.value] if e.value else []
    if isinstance(e, ast.JoinedStr):
        parts = []
        for v in e.values:
            if isinstance(v, ast.Constant):
                parts.append(str(v.value))
            elif isinstance(v, ast.FormattedValue):
                spec = ""
                if v.format_spec is not None:
                    spec = "".join(str(x.value) for x in v.format_spec.values if isinstance(x, ast.Constant))
                parts.append(Hole(v.value, "d" if spec.endswith("d") else "s"))
        return _merge(parts)
    if isinstance(e, ast.BinOp) and isinstance(e.op, ast.Add):
        l, r = template_of(e.left, resolve, const, depth + 1), template_of(e.right, resolve, const, depth + 1)
        if l is None and r is None:
            return None
        # "prefix" + name: the operand that is not itself a template is a hole
        l = l if l is not None else [Hole(e.left, "s")]
        r = r if r is not None else [Hole(e.right, "s")]
        return _merge(l + r)
    if isinstance(e, ast.Call) and isinstance(e.func, ast.Name) and e.func.id == "str" and len(e.args) == 1:
        return [Hole(e.args[0], "s")]
    if isinstance(e, ast.BinOp) and isinstance(e.op, ast.Mod):
        fmt = _lit(e.left, resolve, const)
        if fmt is None:
            return None
        args = list(e.right.elts) if isinstance(e.right, ast.Tuple) else [e.right]
        named = {}
        if isinstance(e.right, ast.Dict):
            named = {k.value: v for k, v in zip(e.right.keys, e.right.values) if isinstance(k, ast.Constant)}
        parts, pos, i = [], 0, 0
        for m in _PCT.finditer(fmt):
            parts.append(fmt[pos:m.start()])
            pos = m.end()
            if m.group(2) == "%":
                parts.append("%")
                continue
            if m.group(1):
                if m.group(1) not in named:
                    return None
                parts.append(Hole(named[m.group(1)], m.group(2)))
            else:
                if i >= len(args):
                    return None
                parts.append(Hole(args[i], m.group(2)))
                i += 1
        parts.append(fmt[pos:])
        return _merge(parts)
    if isinstance(e, ast.Call) and isinstance(e.func, ast.Attribute) and e.func.attr == "format":
        fmt = _lit(e.func.value, resolve, const)
        if fmt is None or any(isinstance(a, ast.Starred) for a in e.args):
            return None
        kw = {}
        for k in e.keywords:
            if k.arg is not None:
                kw[k.arg] = k.value
            elif isinstance(k.value, ast.Dict) and all(isinstance(x, ast.Constant) and isinstance(x.value, str) for x in k.value.keys):
                kw.update({x.value: v for x, v in zip(k.value.keys, k.value.values)})   # .format(**{"name": value})
            else:
                return None
        parts, pos, auto = [], 0, 0
        for m in _BRACE.finditer(fmt):
            parts.append(fmt[pos:m.start()])
            pos = m.end()
            if m.group(0) in ("{{", "}}"):
                parts.append(m.group(0)[0])
                continue
            name = m.group(1)
            spec = m.group(2) or ""
            if name == "":
                if auto >= len(e.args):
                    return None
                v = e.args[auto]
                auto += 1
            elif name.isdigit():
                if int(name) >= len(e.args):
                    return None
                v = e.args[int(name)]
            else:
                if name not in kw:
                    return None
                v = kw[name]
            parts.append(Hole(v, "d" if spec.endswith("d") else "s"))
        parts.append(fmt[pos:])
        return _merge(parts)
    if isinstance(e, ast.Name) and resolve is not None:
        r = resolve(e)
        if r is not None and r is not e:
            return template_of(r, resolve, const, depth + 1)
    if const is not None:
        v = const(e)
        if isinstance(v, str):
            return [v] if v else []
    return None


def _lit(e, resolve, const):
    if isinstance(e, ast.Constant) and isinstance(e.value, str):
        return e.value
    if isinstance(e, ast.Name) and resolve is not None:
        r = resolve(e)
        if isinstance(r, ast.Constant) and isinstance(r.value, str):
            return r.value
    if const is not None:
        v = const(e)
        if isinstance(v, str):
            return v
    return None


def shape(parts):
    """the template with holes anonymised, e.g. '/ppt/slides/slide{}.xml'"""
    return "".join(p if isinstance(p, str) else "{}" for p in parts)


def holes(parts):
    return [p for p in parts if isinstance(p, Hole)]
