"""C16 — recoverable irregular packages open; non-packages are refused cleanly (decidable clauses).

Rules
  R16.1  tolerance guards dominate the dereferences they protect: in the loader every keyed read of the physical
         package (`reader[name]`) is dominated by `name in reader`; a relationship's target part is looked up only for
         relationships that passed the dangling-target filter (the only caller of _Relationship.from_xml is that filter,
         with the same key expression); a part without a relationship item gets an empty relationship set; parts are
         loaded only for names that were reached, so `xml_rels[partname]` cannot miss
  R16.2  refusals have the stated types: for a str path every way through _PhysPkgReader.factory ends in a reader or
         PackageNotFoundError, and the zip reader is only chosen after is_zipfile; a stream goes to the zip reader
         (BadZipFile from zipfile); both physical readers turn a missing member into KeyError; api.Presentation raises
         ValueError for a main part that is not a presentation, before anything else is done with it
  R16.3  unknown content types load as generic parts (registry fall-back); content-type lookup is case-insensitive
         on both tables (C01 R1.1 decides the dictionary itself)
  R16.4  missing core properties: the accessor falls back to a default part and relates it
  R16.5  slide parts are renamed in presentation order, 1..n, from the id list
  R16.6  internal "cannot happen" exits (bare Exception) on these paths are unreachable: the candidate scan before them
         cannot be exhausted (pigeonhole on the loop bounds, shared with C06 R6.2)
  (which exception escapes third-party code for arbitrary corrupt bytes: not decided)
"""

from __future__ import annotations

import ast

from sa.guards import aliases, derefs, norm
from sa.pysrc import dotted
from sa.report import AnalysisError
from sa.types import walk_own


def rename_rule(ctx, prog, rid):
    """PresentationPart.rename_slide_parts names the part of the i-th relationship id slide<i+1> (shared by C16 R16.5 and C06 R6.3)."""
    pp = prog.cls("pptx.parts.presentation", "PresentationPart")
    rn = pp.methods.get("rename_slide_parts")
    good = False
    for n in ast.walk(rn.node) if rn else []:
        if isinstance(n, ast.For) and isinstance(n.iter, ast.Call) and dotted(n.iter.func) == "enumerate" \
                and dotted(n.iter.args[0]) == rn.node.args.args[1].arg and len(n.iter.args) == 1 and not n.iter.keywords:
            iv, rv = [e.id for e in n.target.elts]
            name_ok = part_ok = False
            for m in ast.walk(n):
                if isinstance(m, ast.BinOp) and isinstance(m.op, ast.Mod) and isinstance(m.left, ast.Constant) \
                        and m.left.value == "/ppt/slides/slide%d.xml":
                    from sa.poly import Poly, of_expr

                    arg = m.right.elts[0] if isinstance(m.right, ast.Tuple) else m.right
                    name_ok = of_expr(arg) == Poly.sym(iv) + Poly.const(1)
                if isinstance(m, ast.Call) and dotted(m.func) == "self.related_part" and dotted(m.args[0]) == rv:
                    part_ok = True
            cond = any(isinstance(x, (ast.If, ast.Continue, ast.Break)) for x in ast.walk(n))
            good = name_ok and part_ok and not cond
    if good:
        ctx.ok(rid, "PresentationPart.rename_slide_parts", sample={"name": "/ppt/slides/slide<i+1>.xml for the i-th rId, unconditionally"})
    else:
        ctx.violation(rid, "PresentationPart.rename_slide_parts", "slide parts are not named slide<i+1> for the i-th relationship id",
                      file=pp.file, line=rn.line if rn else pp.line)


def core_properties_default_rule(ctx, prog, rid):
    """A package without core properties gains a related default part on first access (shared by C16 R16.4 and C18 R18.5)."""
    pkg = prog.cls("pptx.package", "Package")
    cp = pkg.methods.get("core_properties")
    good = False
    for n in ast.walk(cp.node) if cp else []:
        if isinstance(n, ast.Try):
            body_ret = any(isinstance(x, ast.Return) and isinstance(x.value, ast.Call) and dotted(x.value.func) == "self.part_related_by"
                           and dotted(x.value.args[0]) == "RT.CORE_PROPERTIES" for x in n.body)
            for h in n.handlers:
                if dotted(h.type) == "KeyError":
                    mk = [x for x in ast.walk(h) if isinstance(x, ast.Call) and dotted(x.func) == "CorePropertiesPart.default"]
                    rl = [x for x in ast.walk(h) if isinstance(x, ast.Call) and dotted(x.func) == "self.relate_to"
                          and any(dotted(a) == "RT.CORE_PROPERTIES" for a in x.args)]
                    rt = [x for x in h.body if isinstance(x, ast.Return)]
                    good = body_ret and bool(mk) and bool(rl) and bool(rt)
    if good:
        ctx.ok(rid, "Package.core_properties", sample={"absent": "CorePropertiesPart.default(self) related with RT.CORE_PROPERTIES and returned"})
    else:
        ctx.violation(rid, "Package.core_properties", "missing core properties are not replaced by a related default part",
                      file=pkg.file, line=cp.line if cp else pkg.line)



def run(ctx):
    from checks.c10 import load

    prog, S, M = load(ctx.repo)
    ctx.level = "other"
    ctx.trusted = ["CPython ast", "zipfile.is_zipfile / ZipFile raise BadZipFile for non-zip streams", "dict and os.path semantics"]
    ctx.explanation = (
        "Each documented tolerance is one guard on one code path and each documented refusal one raise site. The check finds every "
        "keyed dereference of the loader's maps and decides, with a small dominance analysis over the repository's guard idioms "
        "(conditional expression, comprehension filter, early continue, enclosing test), that the membership test for the same "
        "key and map dominates it; the interprocedural case (the relationship target lookup) is closed by a who-may-call rule. "
        "Refusal sites are checked for their exception types and for being reached before any use.")
    ctx.not_decided = ["exceptions escaping lxml / zipfile for arbitrary corrupt bytes", "pairs of irregularities at run time"]

    ser = prog.modules.get("pptx.opc.serialized")
    pk = prog.modules.get("pptx.opc.package")
    if not (ser and pk):
        raise AnalysisError("anchor vanished: pptx.opc.serialized / pptx.opc.package")

    # -- R16.1 -------------------------------------------------------------------------------------------
    ctx.rule("R16.1", "membership guards dominate the keyed dereferences of the loader")
    ldr = pk.classes.get("_PackageLoader")
    rdr = ser.classes.get("PackageReader")
    if not (ldr and rdr):
        raise AnalysisError("anchor vanished: _PackageLoader / PackageReader")
    n_deref = 0

    def check_fn(f, map_pred, label, must=1):
        nonlocal n_deref
        ds = derefs(f.node, map_pred)
        if len(ds) < must:
            ctx.error("%s.%s" % (f.cls.name if f.cls else "", f.name), "expected a keyed read of %s" % label)
            return
        for node, k, m, guarded, how in ds:
            n_deref += 1
            key = "%s:%s[%s]" % (f.qualname, m, k)
            if guarded:
                ctx.ok("R16.1", key, sample={"deref": "%s[%s]" % (m, k), "guard": "%s in %s" % (k, m), "site": "%s:%d" % (f.file, node.lineno)})
            else:
                ctx.violation("R16.1", key, "`%s[%s]` is read without a dominating `%s in %s`: a package lacking that member fails "
                              "with KeyError instead of being tolerated" % (m, k, k, m), file=f.file, line=node.lineno)

    pf = ldr.methods.get("_parts")
    if pf is None:
        raise AnalysisError("anchor vanished: _PackageLoader._parts")
    check_fn(pf, lambda m: m.endswith("_package_reader"), "the package reader")
    rx = rdr.methods.get("rels_xml_for")
    if rx is None:
        raise AnalysisError("anchor vanished: PackageReader.rels_xml_for")
    check_fn(rx, lambda m: m.endswith("_blob_reader"), "the blob reader")
    rets = [n.value for n in walk_own(rx.node) if isinstance(n, ast.Return)]
    if rets and all(isinstance(r, ast.IfExp) and isinstance(r.orelse, ast.Constant) and r.orelse.value is None for r in rets):
        ctx.ok("R16.1", "PackageReader.rels_xml_for:absent", sample={"absent_item": "returns None"})
    else:
        ctx.violation("R16.1", "PackageReader.rels_xml_for:absent", "a part without a relationship item does not yield None",
                      file=rx.file, line=rx.line)
    xrf = ldr.methods.get("_xml_rels_for")
    good = False
    for n in walk_own(xrf.node) if xrf else []:
        if isinstance(n, ast.IfExp) and isinstance(n.test, ast.Compare) and isinstance(n.test.ops[0], ast.Is) \
                and isinstance(n.test.comparators[0], ast.Constant) and n.test.comparators[0].value is None \
                and isinstance(n.body, ast.Call) and dotted(n.body.func) == "CT_Relationships.new":
            good = True
        if isinstance(n, ast.IfExp) and isinstance(n.test, ast.Compare) and isinstance(n.test.ops[0], ast.IsNot) \
                and isinstance(n.orelse, ast.Call) and dotted(n.orelse.func) == "CT_Relationships.new":
            good = True
    if good:
        ctx.ok("R16.1", "_PackageLoader._xml_rels_for", sample={"no_rels_item": "empty CT_Relationships"})
    else:
        ctx.violation("R16.1", "_PackageLoader._xml_rels_for", "a missing relationship item is parsed instead of replaced by an empty set",
                      file=pk.relpath, line=xrf.line if xrf else 1)
    # parts ⊆ reached names: the part dict is built by iterating self._xml_rels
    al = aliases(pf.node)
    from checks.c01 import part_construction
    from sa.itersrc import source_of

    pc = part_construction(pf)
    src_ok = False
    if pc is not None:
        src = source_of(pf.node, pc[2])
        src_ok = norm(ast.parse(src["terminal"], mode="eval").body, al) == "self._xml_rels" if src["terminal"] else False
    ld = ldr.methods.get("_load")
    use_ok = False
    if ld is not None:
        al2 = aliases(ld.node)
        for n in walk_own(ld.node):
            if isinstance(n, ast.For) and isinstance(n.iter, ast.Call) and norm(n.iter.func, al2) == "self._parts.items":
                kv = n.target.elts[0].id if isinstance(n.target, ast.Tuple) else None
                for c in ast.walk(n):
                    if isinstance(c, ast.Subscript) and norm(c.value, al2) == "self._xml_rels" and dotted(c.slice) == kv:
                        use_ok = True
    if src_ok and use_ok:
        ctx.ok("R16.1", "_PackageLoader._load:xml_rels[partname]", sample={"keys": "parts are built from the names in _xml_rels, so the lookup cannot miss"})
    else:
        ctx.violation("R16.1", "_PackageLoader._load:xml_rels[partname]", "parts are not drawn from the reached names (built from _xml_rels: %s; "
                      "looked up by the same key: %s)" % (src_ok, use_ok), file=pk.relpath, line=ld.line if ld else 1)
    # traversal: external skipped, visited skipped
    xr = ldr.methods.get("_xml_rels")
    inner = [n for n in xr.node.body if isinstance(n, ast.FunctionDef)] if xr else []
    good = False
    if inner:
        lp = [n for n in ast.walk(inner[0]) if isinstance(n, ast.For)]
        if lp:
            body = lp[0].body
            skip_ext = any(isinstance(st, ast.If) and isinstance(st.test, ast.Compare) and dotted(st.test.comparators[0]) == "RTM.EXTERNAL"
                           and any(isinstance(x, ast.Continue) for x in st.body) for st in body)
            skip_vis = any(isinstance(st, ast.If) and isinstance(st.test, ast.Compare) and isinstance(st.test.ops[0], ast.In)
                           and dotted(st.test.comparators[0]) == "visited_partnames" and any(isinstance(x, ast.Continue) for x in st.body)
                           for st in body)
            marks = any(isinstance(c, ast.Call) and dotted(c.func) == "visited_partnames.add" for c in ast.walk(inner[0]))
            good = skip_ext and skip_vis and marks
    if good:
        ctx.ok("R16.1", "_PackageLoader._xml_rels:walk", sample={"skips": "external targets and names already visited (cycles terminate)"})
    else:
        ctx.violation("R16.1", "_PackageLoader._xml_rels:walk", "the relationship walk does not skip external targets / visited names",
                      file=pk.relpath, line=xr.line if xr else 1)
    # interprocedural: target lookup only behind the dangling-target filter
    rel = pk.classes.get("_Relationship")
    rels = pk.classes.get("_Relationships")
    fx = rel.methods.get("from_xml") if rel else None
    lf = rels.methods.get("load_from_xml") if rels else None
    if not (fx and lf):
        raise AnalysisError("anchor vanished: _Relationship.from_xml / _Relationships.load_from_xml")
    callers = []
    for g in prog.all_functions():
        for c in ast.walk(g.node):
            if isinstance(c, ast.Call) and (dotted(c.func) or "").endswith("_Relationship.from_xml"):
                callers.append((g, c))
    fparams = [a.arg for a in fx.node.args.args][1:]
    dd = derefs(fx.node, lambda m: m == fparams[2])
    ext_branch = any(isinstance(n, ast.IfExp) and isinstance(n.test, ast.Compare) and dotted(n.test.comparators[0]) == "RTM.EXTERNAL"
                     and isinstance(n.test.ops[0], ast.Eq) and any(x is d[0] for d in dd for x in ast.walk(n.orelse)) for n in ast.walk(fx.node))
    good = len(callers) == 1 and callers[0][0].qualname.startswith("_Relationships.load_from_xml") and len(dd) == 1 and ext_branch
    guard_ok = False
    if good:
        g, c = callers[0]
        # in the caller: `if targetMode == INTERNAL: partname = from_rel_ref(base_uri, rel.target_ref); if partname not in parts: continue`
        for lp in [n for n in ast.walk(lf.node) if isinstance(n, ast.For)]:
            for i, st in enumerate(lp.body):
                if isinstance(st, ast.If) and isinstance(st.test, ast.Compare) and dotted(st.test.comparators[0]) == "RTM.INTERNAL" \
                        and isinstance(st.test.ops[0], ast.Eq):
                    asg = [x for x in st.body if isinstance(x, ast.Assign)]
                    chk = [x for x in st.body if isinstance(x, ast.If) and isinstance(x.test, ast.Compare) and isinstance(x.test.ops[0], ast.NotIn)
                           and any(isinstance(y, ast.Continue) for y in x.body)]
                    if asg and chk and dotted(chk[0].test.left) == asg[0].targets[0].id:
                        kcall = asg[0].value
                        dk = dd[0][0].slice
                        # same key expression modulo the parameter names of from_xml
                        ren = dict(zip(fparams, [ast.unparse(a) for a in c.args]))

                        class R(ast.NodeTransformer):
                            def visit_Name(self, n):
                                return ast.Name(id=ren.get(n.id, n.id), ctx=n.ctx)
                        import copy

                        want = ast.unparse(R().visit(copy.deepcopy(dk)))
                        guard_ok = ast.unparse(kcall) == want and dotted(chk[0].test.comparators[0]) == ast.unparse(c.args[2]) \
                            and any(x is c for later in lp.body[i + 1:] for x in ast.walk(later))
    tm = prog.cls("pptx.oxml.simpletypes", "ST_TargetMode")
    two_valued = False
    v = tm.methods.get("validate") if tm else None
    for n in ast.walk(v.node) if v else []:
        if isinstance(n, ast.Compare) and isinstance(n.ops[0], ast.NotIn):
            vals = prog.const(n.comparators[0], v.module)
            two_valued = isinstance(vals, tuple) and set(vals) == {"External", "Internal"}
    if good and guard_ok and two_valued:
        ctx.ok("R16.1", "_Relationship.from_xml:parts[target]", sample={
            "deref": "parts[PackURI.from_rel_ref(base_uri, rel.target_ref)] for non-External relationships",
            "only_caller": "iter_valid_rels, after `if partname not in parts: continue` on the same key for Internal relationships",
            "target_modes": ["External", "Internal"]})
    else:
        ctx.violation("R16.1", "_Relationship.from_xml:parts[target]", "the target-part lookup is not confined behind the dangling-target filter "
                      "(single caller in load_from_xml: %s; same-key guard before the call: %s; two target modes: %s)" % (good, guard_ok, two_valued),
                      file=fx.file, line=fx.line)
    ctx.count("guarded_derefs", n_deref)

    # -- R16.2 -------------------------------------------------------------------------------------------
    ctx.rule("R16.2", "refusals have the stated exception types and come before any use")
    ppr = ser.classes.get("_PhysPkgReader")
    fac = ppr.methods.get("factory") if ppr else None
    if fac is None:
        raise AnalysisError("anchor vanished: _PhysPkgReader.factory")
    body = [st for st in fac.node.body if not (isinstance(st, ast.Expr) and isinstance(st.value, ast.Constant))]
    outcomes = []
    str_known = False
    probs = []
    for st in body:
        if isinstance(st, ast.If):
            t = st.test
            tsrc = ast.unparse(t)
            ret = [x for x in st.body if isinstance(x, ast.Return)]
            what = dotted(ret[0].value.func) if ret and isinstance(ret[0].value, ast.Call) else None
            if tsrc.replace(" ", "") in ("notisinstance(pkg_file,str)",):
                outcomes.append(("stream", what))
                str_known = True
            elif "os.path.isdir" in tsrc:
                outcomes.append(("dir", what))
            elif "is_zipfile" in tsrc:
                outcomes.append(("zip", what))
            elif what == "_ZipPkgReader":
                probs.append("the zip reader is chosen under `%s`, not after zipfile.is_zipfile: an existing file that is not a zip raises "
                             "BadZipFile instead of PackageNotFoundError" % tsrc)
            else:
                probs.append("unrecognised branch `%s`" % tsrc)
        elif isinstance(st, ast.Raise):
            outcomes.append(("else", dotted(st.exc.func) if isinstance(st.exc, ast.Call) else dotted(st.exc)))
        elif isinstance(st, ast.Return):
            outcomes.append(("else-return", dotted(st.value.func) if isinstance(st.value, ast.Call) else None))
    want = [("stream", "_ZipPkgReader"), ("dir", "_DirPkgReader"), ("zip", "_ZipPkgReader"), ("else", "PackageNotFoundError")]
    if outcomes == want and not probs:
        ctx.ok("R16.2", "_PhysPkgReader.factory", sample={"paths": ["stream -> zip reader (BadZipFile from zipfile)", "directory -> dir reader",
                                                                   "zip file -> zip reader", "anything else -> PackageNotFoundError"]})
    else:
        ctx.violation("R16.2", "_PhysPkgReader.factory", "for a path that is neither a directory nor a zip file the factory does not end in "
                      "PackageNotFoundError (outcomes %s %s)" % (outcomes, probs), file=fac.file, line=fac.line)
    exc = prog.modules.get("pptx.exc")
    pnf = exc.classes.get("PackageNotFoundError") if exc else None
    if pnf is not None and any(getattr(k, "name", None) == "PythonPptxError" for k in prog.mro(pnf)):
        ctx.ok("R16.2", "PackageNotFoundError", nontrivial=False)
    else:
        ctx.violation("R16.2", "PackageNotFoundError", "PackageNotFoundError is not a PythonPptxError", file=exc.relpath if exc else "src/pptx/exc.py", line=1)
    for cname in ("_ZipPkgReader", "_DirPkgReader"):
        c = ser.classes.get(cname)
        gi = c.methods.get("__getitem__") if c else None
        if gi is None:
            raise AnalysisError("anchor vanished: %s.__getitem__" % cname)
        raises = [dotted(n.exc.func) if isinstance(n.exc, ast.Call) else dotted(n.exc) for n in ast.walk(gi.node) if isinstance(n, ast.Raise) and n.exc]
        key = "%s.__getitem__" % cname
        if cname == "_ZipPkgReader":
            ds = derefs(gi.node, lambda m: m.endswith("_blobs"))
            okk = raises == ["KeyError"] and ds and all(d[3] for d in ds)
        else:
            tr = [n for n in ast.walk(gi.node) if isinstance(n, ast.Try)]
            okk = raises == ["KeyError"] and tr and any(dotted(h.type) in ("IOError", "OSError", "FileNotFoundError") for h in tr[0].handlers) \
                and any(isinstance(x, ast.Call) and dotted(x.func) == "open" for x in ast.walk(tr[0]))
        if okk:
            ctx.ok("R16.2", key, sample={"missing_member": "KeyError"})
        else:
            ctx.violation("R16.2", key, "a missing member is not reported as KeyError (raises %s)" % raises, file=gi.file, line=gi.line)
    api = prog.modules.get("pptx.api")
    pres = api.functions.get("Presentation") if api and hasattr(api, "functions") else None
    if pres is None and api is not None:
        pres = next((f for f in prog.all_functions() if f.module is api and f.name == "Presentation"), None)
    if pres is None:
        raise AnalysisError("anchor vanished: pptx.api.Presentation")
    from sa import paths as P_
    from sa.desugar import desugar

    dpres = desugar(pres.node)
    al_p = P_.aliases(dpres)
    pths = [p for p in P_.enum_paths(dpres.body)]
    probs = []
    decided = 0
    for pth in pths:
        fs = P_.facts(pth, None, al_p)
        verdict = [a for a in fs if a[0] == "truthy" and a[1].startswith("_is_pptx_package(")]
        if not verdict:
            if pth.end in ("return",):
                probs.append("a path returns without asking _is_pptx_package (line %d)" % pth.end_node.lineno)
            continue
        decided += 1
        part_src = verdict[0][1][len("_is_pptx_package("):-1]
        if verdict[0][2] is False:
            exc = None
            if pth.end == "raise" and pth.end_node.exc is not None:
                e = pth.end_node.exc
                exc = dotted(e.func) if isinstance(e, ast.Call) else dotted(e)
            if exc != "ValueError":
                probs.append("a main part that is not a presentation ends in %s, not ValueError" % (exc or pth.end))
            for ev in pth.events:
                node = ev[1] if ev[0] in ("stmt",) else None
                if node is not None:
                    for x in ast.walk(node):
                        if isinstance(x, ast.Attribute) and P_.norm(x.value, al_p) == part_src and x.attr not in ("content_type",):
                            probs.append("the part is used (.%s) although it is not a presentation" % x.attr)
        else:
            if pth.end != "return":
                probs.append("a presentation main part does not lead to a return")
    # the check must come before any use of the part on every path
    for pth in pths:
        seen_check = False
        for ev in pth.events:
            node = ev[1] if ev[0] in ("stmt", "cond") else None
            if node is None:
                continue
            if any(isinstance(x, ast.Call) and dotted(x.func) == "_is_pptx_package" for x in ast.walk(node)):
                seen_check = True
                continue
            if not seen_check and any(isinstance(x, ast.Attribute) and x.attr in ("presentation",) for x in ast.walk(node)):
                probs.append("the part is used before _is_pptx_package is asked")
    isp = next((f for f in prog.all_functions() if f.module is api and f.name == "_is_pptx_package"), None)
    types_ok = False
    if isp is not None:
        env = {}
        for n in walk_own(isp.node):
            if isinstance(n, ast.Assign) and isinstance(n.targets[0], ast.Name):
                env[n.targets[0].id] = prog.const(n.value, api, env)
        rets = [n.value for n in ast.walk(isp.node) if isinstance(n, ast.Return)]
        if rets and isinstance(rets[0], ast.Compare) and isinstance(rets[0].ops[0], ast.In) and (dotted(rets[0].left) or "").endswith(".content_type"):
            vals = prog.const(rets[0].comparators[0], api, env)
            types_ok = isinstance(vals, (tuple, list, frozenset, set)) and len(vals) >= 1 and all(
                isinstance(x, str) and "presentation" in x and x.endswith("main+xml") for x in vals)
    if not decided:
        ctx.error("pptx.api.Presentation", "no path asks _is_pptx_package")
    elif probs or not types_ok:
        ctx.violation("R16.2", "api.Presentation", "; ".join(sorted(set(probs))) or "the accepted main content types are not the presentation main types",
                      file=pres.file, line=pres.line)
    else:
        ctx.ok("R16.2", "api.Presentation", sample={"refusal": "ValueError when the main part's content type is not a presentation main type",
                                                    "before": "any use of the part", "paths": decided})

    # -- R16.3 -------------------------------------------------------------------------------------------
    ctx.rule("R16.3", "unknown content types load as generic parts; content-type lookup ignores case")
    pfc = pk.classes.get("PartFactory")
    pcf = pfc.methods.get("_part_cls_for") if pfc else None
    good = False
    if pcf is not None:
        ds = derefs(pcf.node, lambda m: m.endswith("part_type_for"))
        last = pcf.node.body[-1]
        good = bool(ds) and all(d[3] for d in ds) and isinstance(last, ast.Return) and dotted(last.value) == "Part"
    if good:
        ctx.ok("R16.3", "PartFactory._part_cls_for", sample={"unregistered_type": "Part (generic, bytes preserved)"})
    else:
        ctx.violation("R16.3", "PartFactory._part_cls_for", "a content type without a registered class does not fall back to Part",
                      file=pk.relpath, line=pcf.line if pcf else 1)
    from checks.c01 import content_type_rules

    content_type_rules(ctx, prog, ser, pk, prog.modules["pptx.opc.spec"], prog.modules["pptx.opc.oxml"], "R16.3")
    ctm = pk.classes.get("_ContentTypeMap")
    fxm = ctm.methods.get("from_xml") if ctm else None
    both = 0
    for n in walk_own(fxm.node) if fxm else []:
        if isinstance(n, ast.Assign) and isinstance(n.value, ast.Call) and dotted(n.value.func) == "CaseInsensitiveDict":
            both += 1
    gi = ctm.methods.get("__getitem__") if ctm else None
    ds = derefs(gi.node, lambda m: m in ("self._overrides", "self._defaults")) if gi else []
    if both == 2 and len(ds) == 2 and all(d[3] for d in ds):
        ctx.ok("R16.3", "_ContentTypeMap", sample={"tables": "Override and Default both case-insensitive", "lookups": "each behind its membership test"})
    else:
        ctx.violation("R16.3", "_ContentTypeMap", "content-type lookup is case-sensitive or unguarded (case-insensitive tables: %d, guarded lookups: %s)"
                      % (both, [d[3] for d in ds]), file=pk.relpath, line=ctm.line if ctm else 1)

    # -- R16.4 -------------------------------------------------------------------------------------------
    ctx.rule("R16.4", "a package without core properties gains a default part on first access")
    core_properties_default_rule(ctx, prog, "R16.4")

    # -- R16.5 -------------------------------------------------------------------------------------------
    ctx.rule("R16.5", "slide parts are renamed slide1..n in presentation order")
    rename_rule(ctx, prog, "R16.5")
    prs = prog.cls("pptx.presentation", "Presentation")
    sl = prs.methods.get("slides")
    good = False
    for c in ast.walk(sl.node) if sl else []:
        if isinstance(c, ast.Call) and (dotted(c.func) or "").endswith("rename_slide_parts") and c.args:
            a = c.args[0]
            if isinstance(a, (ast.ListComp, ast.GeneratorExp)) and not a.generators[0].ifs and dotted(a.generators[0].iter) in ("sldIdLst", "sldIdLst.sldId_lst"):
                e = a.elt
                while isinstance(e, ast.Call) and dotted(e.func) == "cast":
                    e = e.args[1]
                good = isinstance(e, ast.Attribute) and e.attr == "rId"
                if isinstance(a.elt, ast.Attribute) and isinstance(a.elt.value, ast.Call):
                    good = a.elt.attr == "rId"
    if good:
        ctx.ok("R16.5", "Presentation.slides", sample={"order": "rIds of every p:sldId in document order"})
    else:
        ctx.violation("R16.5", "Presentation.slides", "rename_slide_parts is not given the rIds of all p:sldId in document order",
                      file=prs.file, line=sl.line if sl else prs.line)

    # -- R16.6 -------------------------------------------------------------------------------------------
    ctx.rule("R16.6", "'cannot happen' exits (bare Exception) on the open / first-access paths are unreachable")
    from checks.c06 import scan_exhaustion_problem

    nimp = 0
    for g in prog.all_functions():
        if not g.module.name.startswith(("pptx.opc.", "pptx.package", "pptx.api", "pptx.parts.presentation", "pptx.parts.coreprops")):
            continue
        bare = [n for n in ast.walk(g.node) if isinstance(n, ast.Raise) and isinstance(n.exc, ast.Call) and dotted(n.exc.func) == "Exception"]
        if not bare:
            continue
        nimp += 1
        key = "%s:raise Exception" % g.qualname
        # recognised justification: the raise follows a candidate scan that cannot be exhausted (pigeonhole, decided on the loop bounds)
        loops = [n for n in ast.walk(g.node) if isinstance(n, ast.For) and any(
            isinstance(c, ast.Compare) and isinstance(c.ops[0], ast.NotIn) for c in ast.walk(n))]
        prob = scan_exhaustion_problem(g.node)
        last_is_raise = g.node.body and g.node.body[-1] in bare
        if loops and last_is_raise and prob is None:
            ctx.ok("R16.6", key, sample={"function": g.fq, "unreachable_because": "the scan before it tries at least |population|+1 distinct candidates"})
        elif prob is not None:
            ctx.violation("R16.6", key, "an internal error (bare Exception) is reachable: %s" % prob, file=g.file, line=bare[0].lineno)
        else:
            ctx.error(key, "bare `raise Exception` whose unreachability this analysis cannot show")
    ctx.count("impossible_exits", nimp)
