"""Template inventory (engine D, part 3): every XML text the library builds and parses.

sinks(prog, T) -> list of Sink: one per evaluation of a `parse_xml(<expr>)` call reached by
abstractly executing each function of the package (callees are inlined by the evaluator, so a
factory called with caller-side arguments is seen with those arguments bound)."""

from __future__ import annotations

import ast

from .pysrc import EnumMember, dotted
from .report import AnalysisError
from .strabs import S, StrEval
from .types import FCtx


class Sink:
    def __init__(self, call, fc, value, stack, top):
        self.call = call
        self.fc = fc  # context of the function containing the parse_xml call
        self.value = value
        self.stack = stack  # inlining stack [(FuncInfo, selfcls)...]
        self.top = top  # FuncInfo whose abstract execution reached the sink

    @property
    def where(self):
        return "%s:%d" % (self.fc.fn.file, self.call.lineno)

    @property
    def name(self):
        return "%s@%d" % (self.fc.fn.qualname, self.call.lineno)


def run_function(prog, T, f, bindings=None, selfcls=None):
    """Abstractly execute f; returns (evaluator, env, returns)."""
    ev = StrEval(prog, T, bindings=bindings)
    fc = FCtx(f, selfcls)
    env = {}
    params = list(f.params)
    if f.cls is not None and f.kind != "staticmethod" and params:
        env[params[0]] = ("self", selfcls or f.cls)
    rets = []
    ev._stack.append((f, selfcls or f.cls))
    try:
        ev._block(f.node.body, fc, env, rets)
    finally:
        ev._stack.pop()
    return ev, env, rets


def has_parse_xml(f):
    return any(isinstance(n, ast.Call) and dotted(n.func) == "parse_xml" for n in ast.walk(f.node))


def sinks(prog, T):
    out = []
    unknown = []
    nsites = 0
    for f in prog.all_functions():
        if f.module.name in ("pptx.oxml", "pptx.oxml.__init__"):
            continue  # parse_xml itself / parse_from_template
        if not has_parse_xml(f):
            continue
        nsites += sum(1 for n in ast.walk(f.node) if isinstance(n, ast.Call) and dotted(n.func) == "parse_xml")
        ev, env, rets = run_function(prog, T, f)
        for call, fc, v, stack in ev.parsed:
            out.append(Sink(call, fc, v, stack, f))
        for u in ev.unknown:
            unknown.append(u)
    return out, unknown, nsites


def chart_writers(prog):
    """[(writer ClassInfo, [chart-type EnumMember...])] from the ChartXmlWriter factory dict."""
    m = prog.modules.get("pptx.chart.xmlwriter")
    if m is None or "ChartXmlWriter" not in m.functions:
        raise AnalysisError("anchor vanished: pptx.chart.xmlwriter.ChartXmlWriter")
    f = m.functions["ChartXmlWriter"]
    table = None
    env = {}
    for n in ast.walk(f.node):
        if isinstance(n, ast.Assign) and isinstance(n.value, ast.Name) and len(n.targets) == 1 \
                and isinstance(n.targets[0], ast.Name):
            env[n.targets[0].id] = n.value.id
    for n in ast.walk(f.node):
        if isinstance(n, ast.Dict) and len(n.keys) > 5:
            table = n
    if table is None:
        raise AnalysisError("ChartXmlWriter: factory dict literal not found")
    out = {}
    for k, v in zip(table.keys, table.values):
        kd = dotted(k)
        head, _, member = kd.rpartition(".")
        head = env.get(head, head)
        km = prog.const(ast.parse("%s.%s" % (head, member), mode="eval").body, m)
        c = prog.resolve(m, dotted(v))
        if not isinstance(km, EnumMember) or c is None:
            raise AnalysisError("ChartXmlWriter: row %s does not fold" % kd)
        out.setdefault(c, []).append(km)
    return list(out.items())
