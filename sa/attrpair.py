"""Pairing of xmlchemy attribute declarations with schema attributes (shared by C11, C20, C09).

For each attribute declaration of each registered element class, and each schema type that declares
an element of the registered tag, find the schema attribute of that name.  The Python simple-type /
enum class is thereby paired with a schema simple type *by use*, not by name.
"""

from __future__ import annotations

from .pysrc import ClassRef


class Pair:
    __slots__ = ("cls", "decl", "tag", "tq", "attr", "pycls")

    def __init__(self, cls, decl, tag, tq, attr, pycls):
        self.cls = cls
        self.decl = decl
        self.tag = tag
        self.tq = tq
        self.attr = attr  # xsd.Attr or None
        self.pycls = pycls  # ClassInfo of the simple type / enum or None


def attr_clark(prog, name):
    return prog.qn(name) if ":" in name else name


def complex_types_for(S, clark):
    return sorted(t for t in S.elem_decls.get(clark, ()) if t in S.ctypes)


def pairings(prog, S, M):
    out = []
    unregistered = []
    by_class = {}
    for tag, cls, mod, line in M.registry:
        by_class.setdefault(cls, []).append(tag)
    for cls in M.oxml_classes():
        decls = M.attr_decls(cls)
        if not decls:
            continue
        tags = by_class.get(cls, [])
        if not tags:
            # abstract base: served through its registered subclasses
            continue
        for d in decls:
            pycls = d.st.cls if isinstance(d.st, ClassRef) else None
            for tag in tags:
                for tq in complex_types_for(S, prog.qn(tag)):
                    attrs = S.attrs_of(tq)
                    a = attrs.get(attr_clark(prog, d.attr))
                    out.append(Pair(cls, d, tag, tq, a, pycls))
    return out


def schema_types_for_pyclass(pairs):
    """pycls -> {schema simple type qname: [Pair...]} from the pairings where the attribute exists."""
    m = {}
    for p in pairs:
        if p.attr is not None and p.pycls is not None and p.attr.type is not None:
            m.setdefault(p.pycls, {}).setdefault(p.attr.type, []).append(p)
    return m
