"""C05 — caller-supplied strings are stored as data, never interpreted as markup.

Rules
  R5.1  context-sensitive taint: no hole of any XML template that reaches the parser is filled by a value that can
        carry a caller-controlled / document-read string unless it passed the sanitiser its lexical context needs
        (character data: escape(); double-quoted attribute: escape with a quote map / quoteattr)
  R5.2  string-typed values enter the document otherwise only through lxml (attribute set / .text), which is
        structurally safe: every string attribute declaration is enumerated with its length/charset guards
"""

from __future__ import annotations

import ast

from sa.pysrc import dotted
from sa.provenance import Prov
from sa.report import AnalysisError
from sa.strabs import S as AS
from sa.strabs import StrEval
from sa.templates import chart_writers, sinks
from sa.types import FCtx, Types
from sa.xmlskel import skeleton

DANGEROUS = {"USER", "FILE", "DOC", "UNKNOWN"}

# documented numeric inputs: the property is about strings the caller supplies; chart values and geometry
# are numbers by API contract (ChartData.add_series(values), XySeriesData.add_data_point(x, y, size), shape geometry)
NUMERIC_BY_CONTRACT = {
    "value": "chart data point values are numbers (ChartData docs: 'values is a sequence of numbers')",
    "x": "geometry / XY data point coordinate", "y": "geometry / XY data point coordinate",
    "cx": "geometry", "cy": "geometry", "imgW": "icon size", "imgH": "icon size",
    "idx": "point / category index", "size": "bubble size",
}


def contract_numeric(prog, h):
    """the reason a hole is numeric by API contract, or None: an element of a chart `values` sequence (whatever the loop variable
    is called), or one of the documented numeric parameters by name"""
    e = h.expr
    if isinstance(e, ast.Name) and h.fc is not None and h.fc.fn is not None:
        from sa.itersrc import source_of

        for n in ast.walk(h.fc.fn.node):
            if isinstance(n, (ast.For, ast.comprehension)) and any(isinstance(x, ast.Name) and x.id == e.id for x in ast.walk(n.target)):
                it = n.iter.args[0] if isinstance(n.iter, ast.Call) and dotted(n.iter.func) == "enumerate" and n.iter.args else n.iter
                idx_var = isinstance(n.iter, ast.Call) and dotted(n.iter.func) == "enumerate" and isinstance(n.target, ast.Tuple) \
                    and isinstance(n.target.elts[0], ast.Name) and n.target.elts[0].id == e.id
                t = source_of(h.fc.fn.node, it, None, None)["terminal"] or ""
                if not idx_var and (t == "values" or t.endswith(".values")):
                    return NUMERIC_BY_CONTRACT["value"]
    # by name only inside the chart writers, where these names are the documented numeric inputs (elsewhere a local that
    # happens to be called `value` says nothing about what it holds)
    fn_ = h.fc.fn if h.fc is not None else None
    if fn_ is not None and fn_.module is not None and fn_.module.name.startswith("pptx.chart."):
        return NUMERIC_BY_CONTRACT.get(h.src)
    return None


def classify(prov, mk):
    """(verdict, labels, witness) for one marker."""
    h = mk.hole
    ctx = mk.ctx
    if h.numeric or (h.spec and h.spec[-1:] in "dxXofeEgGn"):
        return "safe", {"NUM"}, "numeric format spec"
    if h.why == "enum member":
        return "safe", {"TOKEN"}, "enum member"
    origins = prov.origin(h.expr, h.fc)
    labels = {o[0] for o in origins}
    san = h.san
    if san is not None and san.startswith("broken:"):
        return "double-escape", labels, "the hand-written escaper applies its replacements in an order that escapes its own output: %s" % san[7:]
    if san is not None and (labels & {"SAN_TEXT", "SAN_ATTR"}):
        wit = [" <- ".join(ch[-3:]) for lab, ch in origins if lab in ("SAN_TEXT", "SAN_ATTR")][:1]
        return "double-escape", labels, "escaped here and already escaped upstream (%s)" % (wit[0] if wit else "")
    if "SAN_ATTR" in labels and not (labels & DANGEROUS):
        san = san or "attr"
    if "SAN_TEXT" in labels and not (labels & DANGEROUS) and san is None:
        san = "text"
    bad = labels & DANGEROUS
    wit = None
    for lab, chain in sorted(origins, key=lambda o: (o[0] not in DANGEROUS, len(o[1]))):
        if lab in DANGEROUS:
            wit = "%s via %s" % (lab, " <- ".join(chain[-4:]))
            break
    if san in ("attr", "quoteattr"):
        return "safe", labels, "sanitised for attribute context"
    if san == "text":
        if ctx == "text":
            return "safe", labels, "escape() in character data"
        if bad or "SAN_TEXT" in labels:
            # escape() leaves the quote character: insufficient inside a quoted attribute
            if bad or True:
                return "text-escape-in-attr", labels, wit or "escape() without quote map inside an attribute value"
    if bad:
        real = [o for o in origins if o[0] in DANGEROUS and o[0] != "UNKNOWN"]
        if not real:
            # only values the analysis could not trace (an unresolved call, its own depth bound) stand in the way: no caller-
            # controlled string was shown to arrive here, so this is an analysis gap, not a finding
            return "undecided", labels, wit
        return "unsanitised", labels, wit
    return "safe", labels, "origins: %s" % ",".join(sorted(labels))


def run(ctx):
    from checks.c10 import load

    prog, S, M = load(ctx.repo)

    from sa.xmlchemy_model import ALL_PARTS, mechanism_gate  # noqa: F401


    mechanism_gate(ctx, M, ("attr",))
    T = Types(prog, M)
    prov = Prov(prog, M, T)
    ctx.level = "other"
    ctx.trusted = ["CPython ast", "xml.sax.saxutils.escape semantics (escapes & < >; quotes only with an entity map)",
                   "lxml attribute/text assignment never parses markup",
                   "abstract string evaluation + XML tokenizer for hole contexts"]
    ctx.explanation = (
        "Every hole of every XML template that reaches the parser (oxml factories via parse_xml, chart writers via ChartPart) is "
        "located with its lexical context (double/single-quoted attribute value, character data). Its filler is classified by a "
        "backward provenance analysis through locals, fields, properties, returns and parameters to every caller up to public API "
        "parameters; numeric-by-construction, constant, enum-token and generated values are safe; anything that can carry a "
        "caller string, a file name or a string read back from the document must have passed the sanitiser the context needs. "
        "Unclassifiable fillers are reported (deny by default).")
    ctx.not_decided = ["that the reader returns the identical string (run-time round trip)",
                       "characters that XML cannot represent at all"]

    ctx.rule("R5.1", "no caller-controlled string reaches a markup template hole without the sanitiser its context needs")
    sk, unknown, nsites = sinks(prog, T)
    for u in unknown:
        ctx.error("%s:%s" % (u[1].file if u[1] else "?", u[2]), "template construct not interpreted: %s" % u[0])
    templates = []
    for s in sk:
        if isinstance(s.value, AS):
            templates.append((s.fc.fn, s.name, s.value, s.call.lineno))
    for cls, types in chart_writers(prog):
        xml = prog.lookup(cls, "xml")
        ev = StrEval(prog, T)
        v = ev.function_value(xml, cls)
        if isinstance(v, AS):
            templates.append((xml, "%s.xml" % cls.name, v, xml.line))
        else:
            ctx.error(cls.fq, "chart writer xml does not evaluate")
    nholes = 0
    seen = set()
    assumed = set()
    for fn, name, value, line in templates:
        try:
            k = skeleton(value, prog.nsmap)
        except AnalysisError as e:
            ctx.error("%s:%s" % (fn.file, line), "template %s: %s" % (name, e))
            continue
        for mk in k.markers:
            if mk.hole is None:
                continue
            h = mk.hole
            hk = (h.fc.fn, getattr(h.expr, "lineno", 0), h.src, mk.ctx, h.san)
            if hk in seen:
                continue
            seen.add(hk)
            nholes += 1
            where = "%s:%s" % (h.fc.fn.file, getattr(h.expr, "lineno", "?"))
            key = "%s:%s@%s%s" % (h.fc.fn.qualname, h.src, S.pfx(mk.elem) if mk.elem else "?",
                                  ("/@" + mk.attr.split("}")[-1]) if mk.attr else "/text()")
            if h.why in ("format", "format-splat", "percent", "percent-map"):
                # the hole stands for a whole sub-template the evaluator could not interpret: nothing is known about it
                ctx.error(key, "template construct not interpreted (%s): the text it produces is not analysed" % h.why)
                continue
            verdict, labels, wit = classify(prov, mk)
            base = h.src.split(".")[-1].split("(")[0]
            why_num = contract_numeric(prog, h) if verdict != "safe" else None
            if verdict != "safe" and why_num and not (labels & {"FILE", "DOC"}):
                assumed.add("%s: %s" % (key, why_num))
                ctx.ok("R5.1", key, nontrivial=True, sample={"hole": h.src, "context": mk.ctx, "verdict": "numeric by API contract"})
                continue
            if verdict == "undecided":
                ctx.error(key, "provenance of `%s` not decided within the depth bound (%s)" % (h.src, wit))
                continue
            if verdict == "safe":
                ctx.ok("R5.1", key, sample={"hole": h.src, "site": where, "context": mk.ctx, "labels": sorted(labels), "why": wit})
            elif verdict == "double-escape":
                ctx.violation("R5.1", key + ":double", "value is sanitised twice: the stored text contains entity references "
                              "(e.g. '&' is stored as '&amp;amp;') and the reader does not return the caller's string (%s)" % wit,
                              file=h.fc.fn.file, line=getattr(h.expr, "lineno", None), witness=wit)
            elif verdict == "text-escape-in-attr":
                ctx.violation("R5.1", key + ":quote", "value is only escape()d (quotes stay) but sits in a %s attribute value: a "
                              "double quote in it ends the attribute (%s)" % ("double-quoted" if mk.ctx.endswith('"') else "quoted", wit),
                              file=h.fc.fn.file, line=getattr(h.expr, "lineno", None), witness=wit)
            else:
                ctx.violation("R5.1", key, "unsanitised value in %s context: %s" % (
                    "attribute" if mk.ctx.startswith("attr") else "character-data", wit), file=h.fc.fn.file,
                    line=getattr(h.expr, "lineno", None), witness=wit)
    for a in sorted(assumed):
        ctx.assumptions.append("numeric by contract: " + a)
    ctx.count("templates", len(templates))
    ctx.count("holes", nholes)

    # -- R5.2 ------------------------------------------------------------------------------------
    ctx.rule("R5.2", "string attributes are written through lxml (structurally safe); guards that reject representable strings listed")
    from sa.pysrc import ClassRef

    n = 0
    for c in M.oxml_classes():
        for d in M.own_decls(c)[1]:
            if isinstance(d.st, ClassRef) and any(k.name == "BaseStringType" for k in prog.mro(d.st.cls)):
                n += 1
                ctx.ok("R5.2", "%s.%s" % (c.name, d.prop), nontrivial=False,
                       sample={"attr": "%s/@%s" % (c.name, d.attr), "type": d.st.cls.name} if n <= 3 else None)
    ctx.count("string_attributes", n)
    # element text writes: `.text = value` on elements
    nt = 0
    for f in prog.all_functions():
        fc = FCtx(f)
        for node in ast.walk(f.node):
            if isinstance(node, ast.Assign):
                for t in node.targets:
                    if isinstance(t, ast.Attribute) and t.attr == "text":
                        bt = T.expr(t.value, fc)
                        if any(a[0] == "lxml" or (a[0] == "inst" and M.is_oxml_class(a[1])) for a in bt):
                            nt += 1
    ctx.count("element_text_writes", nt)
    ctx.info("R5.2", "%d element .text stores go through lxml (no markup interpretation); the only length guard is "
                     "CT_CoreProperties._set_element_text (255 characters, documented)" % nt)
