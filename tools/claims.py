# Tables consumed by tools/gen_manifest.py.  Only checks that are built and green on the clean tree
# are listed in CLAIMED; everything else must have a reason in NOT_APPLICABLE.

CLAIMED = {
    "C02": dict(
        level="other",
        text="Structural necessary conditions of a closed, self-consistent package: (R2.1) none of the 147 lazyproperties caches a "
             "value derived from a field that is reassigned after construction (transitive field reads through properties, "
             "receiver-typed setter store sites, transient objects exempt) - this is the rule that exposes stale relationship "
             "targets after slide renaming; (R2.2) every value written into an r:* attribute, by attribute store or template hole, "
             "has relationship-machinery provenance; (R2.3) every part constructed outside the loader is named by an allocator "
             "and reaches relate_to in its function or in all typed callers; (R2.4) drop_rel sites remove the referencing element; "
             "(R2.5) constructed content types map back to the constructing class in the registry; (R2.6) the writer derives "
             "content types and members from one part sequence, writes rels items and package rels. Also: drop_rel is called while the reference is still in the XML (its counting rule `_rel_ref_count < 2` is checked); no lazyproperty memoises a collection built by iterating the XML tree or a live proxy collection; R2.7 = the content-type rules of C01 R1.1. NOT decided: closure of the "
             "part graph under arbitrary histories, reference counting of r:embed in drop_rel, equality of re-opened content.",
        technique="static analysis: field-dependency analysis of memoised getters, provenance (taint) of relationship ids, "
                  "typed caller analysis of part construction, table agreement",
        design="DESIGN.md §4 C02",
    ),
    "C03": dict(
        level="other",
        text="Decides the structural clauses of validity: (R3.1) every XML template the library parses is evaluated abstractly to a "
             "skeleton with alternation/iteration/holes and each element's child-sequence language is tested for inclusion in its "
             "schema content model, attributes for name / requiredness / literal value; (R3.2) the shipped template XML and all "
             "XML members of default.pptx validate with the same automata (the valid starting point); (R3.4) raw attribute "
             "writes are constant and valid; (R3.5a) no validity-relevant mutation precedes an explicit refusal on any path "
             "(statement-level may-precede analysis over typed effect summaries); (R3.5b) no element that is invalid as created "
             "is attached before a completing store that can reject its value, nor left incomplete; (R3.7) an element emptied of a child its "
             "schema type requires gets one back on every path to the end of the function. Child positions of later "
             "insertions are C10, value spaces C11, chart templates C07. 13 genuine refusal-path defects are carried as known "
             "findings. NOT decided: validity under arbitrary operation histories (cardinality).",
        technique="static analysis: abstract string evaluation -> XML skeleton -> regular-language inclusion in XSD content-model "
                  "automata; effect summaries over a typed call graph with statement-level may-precede (mutation before raise); "
                  "typestate rule for attach-before-initialise",
        design="DESIGN.md §4 C03, appendix B.3-B.4",
    ),
    "C05": dict(
        level="other",
        text="Context-sensitive taint analysis over every XML template that reaches the parser (44 oxml factory templates and the "
             "8 chart writers): each hole is located with its lexical context (double/single-quoted attribute value, character "
             "data) by an XML tokenizer run over the abstractly evaluated template; its filler is classified by backward "
             "provenance through locals, tuple components, fields, properties, returns and parameters to every call site up to "
             "public API parameters, file names and strings read back from the document. Numeric-by-construction, constants, "
             "enum tokens, xsd:ID values and generated strings are safe; everything else needs the sanitiser its context requires "
             "(escape() for character data, escape with a quote map for attribute values); unclassifiable fillers are reported "
             "(deny by default). 173 holes decided; the 20 genuine defects found on the pinned tree were repaired in /repo. "
             "NOT decided: that the reader returns the identical string (run-time round trip).",
        technique="static analysis: abstract string evaluation + XML tokenizer for hole contexts; interprocedural backward "
                  "provenance (taint) over a typed call graph with sanitiser/context matching",
        design="DESIGN.md §4 C05, appendix B.5",
    ),
    "C06": dict(
        level="other",
        text="Uniqueness of new ids decided structurally: the 13 allocators (shape ids proxy/element, slide ids, relationship ids, "
             "part names generic/image/media/slide, timing-node ids, series idx/order, placeholder names) must draw their "
             "population from a document- or collection-wide source (absolute xpath, whole relationship dict, every reachable "
             "part) and every return path must be fresh by construction (max+1, first gap, candidate loop under `not in`, counter, "
             "len+1 under the naming discipline); every function whose id parameter reaches p:cNvPr/@id of a template (19 "
             "factories, found through the template engine) is fed at all 22 typed call sites by an allocator or the id of the "
             "element being replaced; the n+1 slide part name is only reachable through Slides.add_slide after "
             "rename_slide_parts on the same list; id attributes are never re-written; slide-id bounds agree with ST_SlideId "
             "and the schema. Also: a first-gap scan must enumerate sorted(<integers>) (not document order, not strings), and a `not in P` candidate scan must try at least |P|+1 candidates (counted as a polynomial in len(P)). NOT decided: turbo-mode caching across proxies, id-based lookups after later additions.",
        technique="static analysis: idiom recognition per return path of allocators, population-scope check of xpath literals, "
                  "typed caller analysis of id parameters located through template hole positions, dominance/order of renaming",
        design="DESIGN.md §4 C06",
    ),
    "C07": dict(
        level="other",
        text="The eight chart XML writers are specialised to each of the 29 chart types and evaluated abstractly; series and "
             "point loops become Kleene stars and data-dependent branches alternations, so one inclusion test per element covers "
             "every series count, point count, category shape and missing-value pattern (R7.1, c:chartSpace down to c:pt, "
             "2 789 template elements). Twin writers (element vs *_xml text) must evaluate to the same skeleton (R7.2); "
             "rewriters remove/insert the same data children through generated schema-positioned inserters and touch nothing "
             "else (R7.3); idx/order come from series.index resp. max-over-all-plots+1 (R7.4); c:ptCount holes count the "
             "sequence the sibling c:pt loop iterates (R7.5, category counts by stated premise). Known findings: negative "
             "axis-id literals, c:smooth in radar series. Also R7.6 (date-system constants vs the standard, shared with C08 R8.4) and R7.7 (per chart type, chart writer and series rewriter use the same series-writer class). NOT decided: values read back through the API, date serials, "
             "formatting survival under replace_data histories.",
        technique="static analysis: abstract evaluation of the string-building writers per chart type, XML skeleton language "
                  "inclusion in dml-chart.xsd automata, structural twin/rewriter/allocator comparison",
        design="DESIGN.md §4 C07",
    ),
    "C09": dict(
        level="other",
        text="Round-trip necessary conditions visible in the code's shape: (R9.1) for the 141 getter/setter pairs of the proxy layer "
             "the XML locations read by the getter and written by the setter (attribute of a schema-typed element class, or a "
             "declared child element) are resolved through typed delegation chains and must intersect - 106 pairs are decided, "
             "the rest are counted as not analysed; (R9.2) convert_to_xml and convert_from_xml of every simple type, Adjustment "
             "normalisation included, are evaluated to affine forms and must be reciprocal (rounding mode = quantum recorded); "
             "(R9.3) an OptionalAttribute's declared default equals the schema default whenever the schema declares one, compared "
             "through value interpretation; (R9.4) refusals in setters and their helpers raise TypeError/ValueError. Also R9.5: presence is not decided by truthiness in value-selecting expressions unless the tested value is boolean, its falsy value equals the fall-back, or it is an object without __len__/__bool__ (unknown types are refused); R9.6: a relationship is re-used only on a path that compared the unmodified stored target with the requested one by plain equality; R9.7: an attribute the getter compares with a constant before it answers is written by the setter. NOT decided: "
             "persistence across save/re-open, independence of sibling properties, placeholder inheritance.",
        technique="static analysis: typed delegation-chain resolution of getter/setter XML locations, affine evaluation of "
                  "conversion functions, table comparison of declared vs schema defaults",
        design="DESIGN.md §4 C09",
    ),
    "C10": dict(
        level="proof",
        text="Exhaustive decision over a finite obligation set: every child-element declaration (successors tuple) of every "
             "registered element class x every schema type declaring the registered tag x every child tag, on every sibling "
             "context made of the schema-required elements plus up to 2 (quick) / 3 (thorough) further siblings and the "
             "all-later / all-earlier / all-permitted families; the abstract inserter (semantics recognised from xmlchemy.py on "
             "every run) must land on a position the content-model automaton accepts. Also: every hand-written insertion site "
             "(append/insert/addprevious/addnext/insert_element_before), get_or_add overrides guarded, choice groups equal to "
             "the schema choice, and the structural shape of the generic mechanism (get-or-add guarded, remove removes all, "
             "change-to removes the group then adds). The bound is sufficient because all content models in scope are "
             "single-occurrence (checked per type each run). Also R10.excl: at every call site of a generated adder, the declared schema-exclusive siblings of the added child were removed on the same receiver by a dominating statement, or the parent was created in the same function / by every caller. NOT decided: cardinality under histories of several additions.",
        technique="static analysis: declaration tables x XSD content-model automata (language membership over enumerated "
                  "sibling contexts), structural AST recognition of the insertion mechanism, typed call-site analysis of raw lxml insertions",
        design="DESIGN.md §4 C10, appendix B.1-B.2",
    ),
    "C11": dict(
        level="other",
        text="All 117 attribute declarations are paired by use with their schema attributes (existence, requiredness in both "
             "directions: a schema-required attribute is not declared optional); for each "
             "of the 43 simple-type classes the accepted set is computed by abstract interpretation of validate() (kinds, closed/"
             "open rational intervals), pushed through convert_to_xml (scale, rounding mode, modulus and their order, branch "
             "splits) and compared with the facet interval / enumeration / boolean lexical set of every paired schema simple "
             "type - this is where measure-zero failures (360.0-epsilon rounding up to 21600000, -360.0) are visible; "
             "convert_from_xml is abstractly evaluated on one representative lexeme per lexical alternative of the schema type "
             "(derived from union members and pattern facets) and every enumeration token must map to a member; the factor applied to a "
             "percent literal agrees with the factor of the integer form of the same union type; validate-before-"
             "convert order and exception classes are checked structurally. Eight genuine disagreements are carried as known "
             "findings. NOT decided: exact float rounding at individual values; string pattern facets.",
        technique="static analysis: abstract interpretation (interval + kind + lexeme-shape domains) of the simple-type classes "
                  "against XSD facets; attribute tables compared with schema attribute tables",
        design="DESIGN.md §4 C11, appendix B.6",
    ),
    "C12": dict(
        level="other",
        text="Effect analysis over the typed call graph: summaries in the lattice PURE < ADDS-EMPTY < WRITES are computed to a "
             "fixpoint from syntactic primitives (generated xmlchemy mutators, lxml tree mutators and attribute stores on "
             "non-fresh elements, relationship / part-name / blob updates), with a separate 'effects on objects other than the "
             "receiver' summary so that work on just-constructed objects is not mistaken for a document effect. get_or_add "
             "counts as ADDS-EMPTY only when the created subtree (from the _new_x override / template) is attribute-less and made "
             "of schema types named CT_*Properties or the text-body scaffolding types. All 500+ public read accessors of the proxy "
             "and part layers (getters, __iter__/__getitem__/__len__/__contains__, get/index/iter_*/has_*/is_*) must be PURE, "
             "ADDS-EMPTY, named by the statement, or say in their docstring that they create content; the save path must be PURE. "
             "22 undocumented writing accessors are carried as known findings. Self-calls are resolved through the class hierarchy (an accessor defined in a base class is charged with what a subclass hook does). NOT decided: byte identity of repeated saves.",
        technique="static analysis: interprocedural effect (purity) analysis on a typed call graph, schema-typed tolerance for "
                  "empty containers, docstring vocabulary for documented exceptions",
        design="DESIGN.md §4 C12, appendix B.4",
    ),
    "C01": dict(
        level="other",
        text="Structural clauses of the open/save round trip: (R1.1) the content-types writer gives every part exactly one "
             "declaration keyed by its own extension / name with its own type, never lets two parts of one extension but different "
             "listed types share a Default (the Default table is folded; extensions with several types require the Override "
             "fall-back), emits every computed Default and Override, and the reader resolves Override before Default over "
             "lower-cased keys through a dictionary whose lookup, membership and store all lower-case; (R1.2) iter_parts / "
             "iter_rels follow the visit-once idiom, skip external relationships before touching target_part, yield every "
             "relationship unfiltered, save() hands the writer tuple(iter_parts()) and the package relationships, and the writer "
             "unconditionally writes content types, package relationships, every part and the relationship item of every part "
             "that has relationships; (R1.3) relationships are serialised and re-read field by field (rId, reltype, target_ref, "
             "External iff is_external; Id/Type/Target/TargetMode as in opc-relationships.xsd), loading keeps every "
             "relationship except internal ones whose target is absent; (R1.4) the loader builds each part from its own name, that "
             "name's content type and that name's bytes, and Part / XmlPart / every load() override pass them through unchanged. "
             "Also: .get/.pop/.setdefault/.update on a CaseInsensitiveDict only with a lowered key; relationship ids do not pass through a container keyed by a non-injective function; R1.5 relative references come from posixpath.relpath / join + normalisation, with no string-prefix test or slicing by the length of a directory name. NOT decided: byte identity, XML equivalence, idempotence of a second save, relative-reference arithmetic (C19).",
        technique="static analysis: constant folding of the Default table, two-way-split and conflict-guard check of the writer "
                  "decision, reader precedence order, visit-once idiom check on the generators, positional field pass-through "
                  "tracing between serialiser, element factory and loader, attribute names against the OPC schema",
        design="DESIGN.md §4 C01",
    ),
    "C04": dict(
        level="other",
        text="Structural clauses of the text translations: the run-level escape class, read from the regular expression's own parse "
             "tree, is exactly C0 minus {TAB, LF} and is replaced by _x%04X_ of the code point, the run setter stores exactly the "
             "escaped value and the reader returns the a:t text or ''; the paragraph-level split alternatives are exactly {LF, VT}, "
             "a line break is added before every item but the first and a run only for a non-empty item, a:br reads back as VT, "
             "and the paragraph readers concatenate the text of a:r / a:br / a:fld in document order; the frame-level split "
             "literal is LF, existing paragraphs are removed first, exactly one paragraph is added and filled per segment, the "
             "frame reader joins every paragraph with LF, and cell / shape text delegate to the text frame; paragraph-level "
             "assignment is clear() then append_text(), and clear() removes exactly the content children, so a:pPr and "
             "a:endParaRPr stay. The escape class is accepted as a regular-expression class or as a str.translate table; the break loop is evaluated as a decision table over (first item?, empty item?). NOT decided: whitespace survival through the parser's remove_blank_text heuristics, identity "
             "after save and re-open, astral code points.",
        technique="static analysis: regular-expression parse trees (re._parser) turned into character sets and compared with the "
                  "sets the statement names, constant folding of split literals and read-back symbols, statement-order and "
                  "loop-shape rules on the three setters, reader/writer population agreement",
        design="DESIGN.md §4 C04",
    ),
    "C08": dict(
        level="other",
        text="Structural clauses of cache/workbook agreement: every formula reference builder of the three workbook writers is "
             "decoded from its format string into (column, first row, last row) as polynomials over {depth, index, len, "
             "leaf_count, data_point_offset}; every worksheet.write / write_column (helpers inlined, loops interpreted) into the "
             "cells it fills; the two must be equal as normal forms (A=0, one-based rows = zero-based + 1, a column of n values "
             "ends at first row + n - 1), the category block must put level k in column depth-1-k and cover columns 0..depth-1, "
             "rows 2..leaf_count+1; the XY table offset must be 2*index + data_point_offset with data_point_offset the number of "
             "points before the series; the data attribute cached next to a reference in the XML writers (numRef_xml(ref, fmt, "
             "values), values_ref with the value points, name_ref with the name) must be the attribute written into those cells; "
             "series.<x>_ref -> chart_data.<x>_ref -> workbook_writer.<x>_ref keep their name; each chart data kind builds its own "
             "workbook writer; replace_data rewrites XML and workbook from the same object. Also: the epochs and the 1900 leap-year threshold of Category._excel_date_number equal the standard's 1900/1904 date systems (constants folded, threshold accepted as a day count or as a date); for every chart type the chart writer and the series rewriter build series XML with the same series-writer class; the date system of the cache equals the workbook's (new charts: 1900 on both sides; replace_data on a c:date1904=1 chart is a known finding); a date label is reduced the same way for cache and cell (datetime time-of-day: known finding). NOT decided: column letters beyond Z "
             "(_column_reference loop), date serial numbers, values as stored by XlsxWriter, series.index == enumeration index.",
        technique="static analysis: format-string decoding and abstract evaluation of cell addresses in a polynomial normal-form "
                  "domain (helpers inlined, loop variables as symbols), reference/data pairing read from the XML writers' call "
                  "sites, delegation name agreement",
        design="DESIGN.md §4 C08",
    ),
    "C14": dict(
        level="other",
        text="Structural clauses of table rectangularity and merge consistency: in _Cell.merge the same-table and "
             "contains-merged-cell refusals (ValueError) dominate every mutating statement, in split the merge-origin test does; "
             "merge, split, contains_merged_cell, is_merge_origin and is_spanned share one span vocabulary {rowSpan, gridSpan, "
             "hMerge, vMerge} with split resetting each to its neutral value; the five TcRange iterators are decoded from their "
             "slice expressions into row/column intervals over top/bottom/left/right and merge must write rowSpan over the top "
             "row, gridSpan over the left column, hMerge over all-but-left-column and vMerge over all-but-top-row, the refusal "
             "scan / split / content move ranging over the whole rectangle; extents are (min, |difference|+1) per axis, "
             "bottom=top+height, right=left+width, from_merge_origin's far corner is origin+span-1; size setters store then "
             "notify unconditionally and the chain ends in frame size = sum over all rows/columns; new_tbl adds cols grid "
             "columns, rows rows and cols cells per row with sizes that sum to the requested size (polynomial identity with the "
             "floor division opaque); the frame is created with the same extents; no function other than new_tbl and the element "
             "classes' own structural primitives adds or removes rows, cells or grid columns; row / column indices are positions in the "
             "row / cell lists (or child positions minus a count the schema fixes); the emptiness shortcut of the content move reads "
             "every kind of paragraph content. NOT decided: the state reached by arbitrary merge/split sequences, text order values.",
        technique="static analysis: statement-order dominance of refusal guards, attribute-set agreement between sibling "
                  "functions, slice-to-interval decoding compared in polynomial normal form, must-call chain, loop-sum "
                  "polynomial identity, who-may-call rule",
        design="DESIGN.md §4 C14",
    ),
    "C16": dict(
        level="other",
        text="Structural clauses of tolerant loading and clean refusal: every keyed read of the physical package in the loader "
             "is dominated by the membership test for the same key and map (small dominance analysis over the repository's guard "
             "idioms: conditional expression, comprehension filter, early continue, enclosing test); the relationship target "
             "lookup parts[...] in _Relationship.from_xml sits in the non-External branch, its only caller is the "
             "dangling-target filter of load_from_xml, which tests the same key expression (modulo parameter renaming) on the same "
             "map first, and ST_TargetMode admits exactly External/Internal; a missing relationship item yields an empty "
             "relationship set; parts are built from the reached names so xml_rels[partname] cannot miss; the walk skips external "
             "targets and visited names; for a str path every way through _PhysPkgReader.factory ends in a reader chosen after "
             "isdir / is_zipfile or in PackageNotFoundError (a PythonPptxError), a stream goes to the zip reader; both readers "
             "report a missing member as KeyError; api.Presentation raises ValueError for a main part whose content type is not "
             "a presentation main type before using it; unregistered content types fall back to Part; both content-type tables are "
             "case-insensitive with guarded lookups; missing core properties are replaced by a related default part; slide parts "
             "are renamed slide<i+1> for the i-th rId of the id list, unconditionally. Also R16.6: bare `raise Exception` exits on these paths are unreachable because the candidate scan before them tries at least |population|+1 candidates; R16.3 includes the reader-side content-type rules shared with C01. NOT decided: which exception escapes "
             "lxml/zipfile for arbitrary corrupt bytes; combinations of irregularities at run time.",
        technique="static analysis: membership-guard dominance analysis for keyed dereferences, who-may-call rule closing the "
                  "interprocedural case, path enumeration of the reader factory, refusal-before-use ordering, exception types "
                  "at raise sites",
        design="DESIGN.md §4 C16",
    ),
    "C15": dict(
        level="other",
        text="Structural clauses of 'images are stored once, with the type of the actual image': the four literal tables are "
             "folded from the source and chained (Pillow format -> canonical extension -> content type -> Default content-type "
             "row -> ImagePart in the part-class registry; video content types -> MediaPart); get_or_add_image_part / "
             "get_or_add_media_part create a part only when a SHA1 lookup of the same object found nothing; the lookup compares "
             "the digest of every part reachable by an image (media/video) relationship of the whole package; image and media "
             "parts are constructed nowhere else; sha1/ext/content_type/size/dpi of an Image depend (transitively, by field-read "
             "analysis) on the stored bytes only, never the file name; the bytes read are handed unchanged through from_file -> "
             "from_blob -> __init__ -> part. Also: the part returned by get_or_add_* originates only from the package-wide scan or a new part (no private memo); R15.4 the native width depends on (horizontal dpi, pixel width) and the height on (vertical dpi, pixel height), by component-wise dependency analysis; R15.5 a caller's stream is rewound before it is read. NOT decided: byte equality at run time, DPI normalisation and scaling arithmetic, "
             "Pillow's own format detection.",
        technique="static analysis: constant folding and chaining of the format/extension/content-type/registry tables, "
                  "lookup-dominates-create check, who-may-construct rule, transitive field-read dependency analysis, "
                  "parameter pass-through tracing",
        design="DESIGN.md §4 C15",
    ),
    "C13": dict(
        level="other",
        text="Narrow structural clauses of placeholder cloning: the latent set {DATE, FOOTER, SLIDE_NUMBER} and the notes "
             "cloneable set {SLIDE_IMAGE, BODY, SLIDE_NUMBER} are folded from the source and must equal the sets the statement "
             "names, with the right polarity, over an in-order iteration; the four values read from the source placeholder "
             "flow position-by-position through add_placeholder and new_placeholder_sp into the same-named attribute stores of "
             "the new p:ph, whose readers read those attributes; Slides.add_slide creates the part from the layout's part, "
             "clones placeholders, then registers the slide id with the new relationship id, and p:sldId is appended last "
             "(decided with the C10 procedure); placeholder names come from the part-wide uniqueness loop. Also R13.5: the layout-to-master inheritance table maps every layout placeholder type onto a kind a slide master carries; the pass-through stores are unconditional; the cloneable sequence is not memoised. NOT decided: "
             "inherited geometry values, one-to-one correspondence for exotic layouts.",
        technique="static analysis: constant folding of type sets, positional parameter-flow tracing across three call levels, "
                  "call-order check, C10 placement decision for p:sldId",
        design="DESIGN.md §4 C13",
    ),
    "C17": dict(
        level="other",
        text="Structural clauses of geometry consistency: (R17.1) every public method of the group-capable shape collections that "
             "inserts a shape element (and FreeformBuilder.convert_to_shape) is post-dominated on all paths by an extent "
             "recalculation, following self-calls whose every path recalculates (resolved in the concrete group class); (R17.2) "
             "the collection hook delegates to the group element, and CT_GroupShape.recalculate_extents has no early exit "
             "other than the not-a-group guard, assigns x/y/cx/cy and chOff/chExt from the matching components of _child_extents "
             "(tuple or record) and ends in the unconditional upward recursion, and _child_extents is (min x, min y, max(x+cx) - "
             "min x, max(y+cy) - min y) over all member shapes, compared symbolically; (R17.3) the freeform offsets and extents range over every coordinate-bearing "
             "drawing operation and the start point; (R17.4) for each of the four connector end-point setters every path is "
             "evaluated in polynomial normal form (comparisons become facts, abs() is resolved by a fact that states the sign - "
             "no solver) and must give: moved end-point == assigned value, other end-point unchanged, extent stated "
             "non-negative by the path condition; the end-point formulas are read from the getters. NOT decided: recursion "
             "depth / histories of additions at run time, freeform scaling and rounding.",
        technique="static analysis: statement-level must-follow (post-dominance) with interprocedural must-summaries, structural "
                  "shape rules, population agreement between sibling properties, path-sensitive abstract evaluation in a "
                  "polynomial normal-form domain with syntactic entailment",
        design="DESIGN.md §4 C17",
    ),
    "C18": dict(
        level="other",
        text="Structural clauses of core-property round trip and validity: for all 15 properties the proxy getter and setter "
             "use the same element accessor, that accessor's getter and setter name the same child, the child is a declared "
             "ZeroOrOne whose tag is the Dublin-Core / OPC element for that property and a child of cp:coreProperties in "
             "opc-coreProperties.xsd, and children are created through get_or_add only; str() then `len > 255` raises "
             "ValueError before the element is created and the reader returns the text or ''; a non-datetime raises ValueError "
             "before mutation; the written strftime pattern has a fixed width equal to the reader's slice bound, its date-time "
             "part is one of the reader's templates and its suffix denotes UTC; unparseable timestamps read as None; "
             "created/modified carry xsi:type=dcterms:W3CDTF; +hh:mm is subtracted and -hh:mm added on hours and minutes and "
             "the offset pattern's width equals the length the reader tests; revision accepts only int >= 1 (ValueError "
             "otherwise, before mutation) and reads back as an int. Also R18.5 (shared with C16 R16.4): a package without core properties gains a related default part (/docProps/core.xml, core-properties content type, new cp:coreProperties); the 255 limit is measured on the characters of the string; the offset correction is evaluated under both signs as a polynomial in the hours and minutes fields. NOT decided: datetime arithmetic at the range ends, years "
             "below 1000, equality after save and re-open.",
        technique="static analysis: three-layer name-agreement table against the OPC schema, refusal-before-mutation ordering, "
                  "format-string width and template-membership computation, regex width via re._parser, sign analysis of the "
                  "offset conversion",
        design="DESIGN.md §4 C18",
    ),
    "C20": dict(
        level="other",
        text="Exhaustive finite-table comparison: every BaseXmlEnum member (alias groups by integer value; tokens distinct in "
             "definition order, the order from_xml searches) against the enumeration of the schema simple type the enum is paired "
             "with by use (attribute declarations and template attribute positions, found by typed flow); every row of "
             "autoshape_types against MSO_AUTO_SHAPE_TYPE and against presetShapeDefinitions.xml (guide names, order, defaults); "
             "the add/read-back path of auto shapes through a:prstGeom/@prst. All obligations are enumerated and decided; the "
             "level is 'other' rather than 'proof' only because seven genuine disagreements of the pinned tree are carried as "
             "known findings (duplicate MS-API tokens, the definitions file's upArrow erratum). R20.5: for each of the 29 writable chart types the writer's "
             "template (specialised to the type) is handed to an interpreter of PlotTypeInspector's own code (Python subset: "
             "xpath with child steps and attribute predicates, declared child/attribute access, dict dispatch), which must return "
             "that type. NOT decided: rendering of presets.",
        technique="static analysis: constant folding of enum/table literals compared with XSD enumerations and the shipped preset "
                  "definitions; typed interprocedural flow from Enum.to_xml to template attribute positions",
        design="DESIGN.md §4 C20",
    ),
}

_NOT_BUILT = "decidable structural clause designed in DESIGN.md but its checker is not built yet"

NOT_APPLICABLE = {
    "C02": _NOT_BUILT,
    "C06": _NOT_BUILT, "C09": _NOT_BUILT,
    "C12": _NOT_BUILT, "C13": _NOT_BUILT,
    "C17": _NOT_BUILT,
    "C19": "part-name arithmetic is an equation between values of pure string functions (posixpath "
           "semantics) over all name pairs; no table, ordering or ownership fact in the source determines it; "
           "bounding it needs concrete or symbolic evaluation, a different technique family",
}


# Rules added after the fourth seeding round (DESIGN.md 11.6); appended to the claim text of their property by gen_manifest.py.
ADDENDA = {
    "C01": " (R1.6) the zip reader's member table holds every member of the archive (no filter by size).",
    "C02": " (R2.5) a class-level cls.content_type is evaluated for every concrete subclass. (R2.8) no class derived from Part defines a non-identity __eq__ while the package walk recognises visited parts through a set.",
    "C03": " (R3.5c) a parameter is not handed to a refusing setter of another object after the document was changed; (R3.8) no element is "
           "inserted - or returned by an element factory - from a class attribute / module global without a copy.",
    "C05": " Hand-written escapers are summarised as their chain of str.replace pairs (the order decides whether the chain re-escapes its own "
           "output); the name-based numeric exemption is confined to the chart writers.",
    "C06": " (R6.2 :projection) a used-set built through a partial projection (PackURI.idx) of names that follow a caller's template is reported.",
    "C07": " (R7.9) a category's position among its siblings is found by identity (an equality lookup with a value-style __eq__ is reported).",
    "C08": " (R8.8) nothing derived from the mutable content of chart data is memoised in the chart modules.",
    "C09": " (R9.8) a True/False-keyed table with pass-through default swallows the enum members whose value is 1 or 0.",
    "C10": " (R10.shared) no Choice object is shared between choice groups with different successors; (R10.creator) a hand-written "
           "_new_<child>() returns an element with the declared child's tag.",
    "C12": " getattr(x, <parameter>) is followed through the constant names the call sites pass.",
    "C13": " (R13.1 :order) the selected placeholders are not re-ordered before they are handed out; (R13.6) left/top/width/height fall back on "
           "the base placeholder exactly when the placeholder's own value is None.",
    "C14": " (R14.7) len(), indexing and iteration of the cell / row / column collections range over the same list of elements.",
    "C15": " (R15.4) ImagePart.scale derives the missing dimension from the native size, never from the pixel counts alone.",
    "C16": " (R16.2) on the refusing path of Presentation() the package argument is only formatted (no path-only function is applied to a stream).",
    "C17": " (R17.4) signed local quantities are brought to slide units with round(), not int(x + 0.5).",
    "C20": " (R20.1m) every member from_xml hands out comes from the search over its own enumeration. (R20.7) shape.adjustments holds one Adjustment of its own per guide of the preset's avLst, in order (no filter that drops guides, no "
           "objects shared through a class-level cache).",
}
