"""C17 R17.4 — connector end-point setters, decided by a path-sensitive evaluation in polynomial normal form.

Each of the four setters (begin_x, begin_y, end_x, end_y) is a tree of if/elif/else over comparisons of affine
expressions in (position, extent, new value).  Every path is evaluated abstractly: locals and the three fields written
(position, extent, flip) are polynomials over the initial symbols; comparisons on the path are recorded as facts `p >= 0`
/ `p > 0`; `abs(e)` is resolved by a fact that states the sign of `e` (syntactically, after normalisation) — no solver.
At the end of each path the getter formulas (read from the getters themselves) are applied to the final state:

    moved end-point  == the assigned value
    other end-point  == its initial value
    extent           is one of the path facts, or initial extent + a path fact  (non-negative)

An `abs` whose sign no fact decides, or any other construct, makes the path "not decided" (reported as an analysis
error, never as a pass).
"""

from __future__ import annotations

import ast

from sa.poly import Poly, of_expr
from sa.pysrc import dotted


class NotDecided(Exception):
    pass


def _getter_formulas(prog, cls, name):
    """{True: Poly, False: Poly} over symbols pos/ext for a getter of the form `v = A if flip else B`."""
    g = cls.methods.get(name)
    if g is None:
        raise NotDecided("getter %s missing" % name)
    env = {}
    flipname = None
    for st in g.node.body:
        if isinstance(st, ast.Assign) and isinstance(st.targets[0], ast.Tuple) and isinstance(st.value, ast.Tuple):
            for t, v in zip(st.targets[0].elts, st.value.elts):
                a = dotted(v) or ""
                f = a.split(".")[-1]
                if f in ("x", "y"):
                    env[t.id] = Poly.sym("pos")
                elif f in ("cx", "cy"):
                    env[t.id] = Poly.sym("ext")
                elif f in ("flipH", "flipV"):
                    flipname = t.id
    for n in ast.walk(g.node):
        if isinstance(n, ast.IfExp) and isinstance(n.test, ast.Name) and n.test.id == flipname:
            return {True: of_expr(n.body, env), False: of_expr(n.orelse, env)}
    raise NotDecided("getter %s is not `A if flip else B`" % name)


def analyse_setter(prog, cls, name):
    """Returns list of path results: dict(cond=str, moved=Poly, other=Poly, ext=Poly, facts=[Poly], flip0, flip1)."""
    st_ = cls.setters.get(name)
    if st_ is None:
        raise NotDecided("setter %s missing" % name)
    body = [s for s in st_.node.body if not (isinstance(s, ast.Expr) and isinstance(s.value, ast.Constant))]
    env0 = {}
    flipname = None
    elem = None
    fields = {}
    for s in body:
        if isinstance(s, ast.Assign) and isinstance(s.targets[0], ast.Name) and dotted(s.value) == "self._element":
            elem = s.targets[0].id
        if isinstance(s, ast.Assign) and isinstance(s.targets[0], ast.Tuple) and isinstance(s.value, ast.Tuple):
            for t, v in zip(s.targets[0].elts, s.value.elts):
                a = dotted(v) or ""
                f = a.split(".")[-1]
                if f in ("x", "y") and a.startswith((elem or "?") + "."):
                    env0[t.id] = Poly.sym("pos")
                    fields["pos"] = f
                elif f in ("cx", "cy"):
                    env0[t.id] = Poly.sym("ext")
                    fields["ext"] = f
                elif f in ("flipH", "flipV"):
                    flipname = t.id
                    fields["flip"] = f
                elif isinstance(v, ast.Call) and dotted(v.func) == "int":
                    env0[t.id] = Poly.sym("new")
    if not (elem and flipname and set(fields) == {"pos", "ext", "flip"} and any(p == Poly.sym("new") for p in env0.values())):
        raise NotDecided("setter %s: preamble `x, cx, flip, new = elm.x, elm.cx, elm.flip, int(value)` not recognised" % name)
    results = []

    def ev(e, env, absmap):
        if isinstance(e, ast.Call) and dotted(e.func) == "abs" and len(e.args) == 1:
            q = ev(e.args[0], env, absmap)
            keyname = "|%r|" % q
            absmap[keyname] = q
            return Poly.sym(keyname)
        if isinstance(e, ast.BinOp) and isinstance(e.op, (ast.Add, ast.Sub, ast.Mult)):
            l, r = ev(e.left, env, absmap), ev(e.right, env, absmap)
            return l + r if isinstance(e.op, ast.Add) else l - r if isinstance(e.op, ast.Sub) else l * r
        if isinstance(e, ast.Name):
            if e.id not in env:
                raise NotDecided("unknown name %s" % e.id)
            return env[e.id]
        if isinstance(e, ast.Constant) and isinstance(e.value, int) and not isinstance(e.value, bool):
            return Poly.const(e.value)
        if isinstance(e, ast.UnaryOp) and isinstance(e.op, ast.USub):
            return -ev(e.operand, env, absmap)
        raise NotDecided("expression `%s` outside the affine fragment" % ast.unparse(e))

    def resolve(p, facts, absmap):
        """substitute |q| symbols whose sign is stated by a fact"""
        changed = True
        while changed:
            changed = False
            for s in list(p.symbols()):
                if s in absmap:
                    q = resolve(absmap[s], facts, absmap)
                    fs = [resolve(f, [], absmap) if False else f for f in facts]
                    if any(f == q for f in fs) or q.is_const() and (q.const_value() or 0) >= 0:
                        p = p.subst(s, q)
                        changed = True
                    elif any(f == -q for f in fs):
                        p = p.subst(s, -q)
                        changed = True
        return p

    def walk(stmts, env, state, facts, absmap, flip, conds):
        for i, s in enumerate(stmts):
            if isinstance(s, ast.Assign) and len(s.targets) == 1:
                t = s.targets[0]
                if isinstance(t, ast.Name):
                    if dotted(s.value) == "self._element" or isinstance(s.value, ast.Tuple):
                        continue
                    env = dict(env)
                    env[t.id] = ev(s.value, env, absmap)
                elif isinstance(t, ast.Attribute) and dotted(t.value) == elem:
                    state = dict(state)
                    if t.attr == fields["flip"]:
                        v = s.value.value if isinstance(s.value, ast.Constant) else None
                        if not isinstance(v, bool):
                            raise NotDecided("flip assigned a non-constant")
                        state["flip"] = v
                    elif t.attr == fields["pos"]:
                        state["pos"] = ev(s.value, env, absmap)
                    elif t.attr == fields["ext"]:
                        state["ext"] = ev(s.value, env, absmap)
                    else:
                        raise NotDecided("write to %s" % t.attr)
                elif isinstance(t, ast.Tuple):
                    continue
                else:
                    raise NotDecided("assignment target `%s`" % ast.unparse(t))
            elif isinstance(s, ast.If):
                t = s.test
                rest = stmts[i + 1:]
                if isinstance(t, ast.Name) and t.id == flipname:
                    for pol, blk in ((True, s.body), (False, s.orelse)):
                        if flip is not None and flip != pol:
                            continue
                        st2 = dict(state)
                        if flip is None:
                            st2["flip"] = pol
                        walk(list(blk) + rest, env, st2, facts, absmap, pol, conds + ["%s=%s" % (flipname, pol)])
                    return
                if isinstance(t, ast.Compare) and len(t.ops) == 1 and isinstance(t.ops[0], (ast.GtE, ast.LtE, ast.Gt, ast.Lt)):
                    a, b = ev(t.left, env, absmap), ev(t.comparators[0], env, absmap)
                    op = t.ops[0]
                    if isinstance(op, (ast.GtE, ast.Gt)):
                        tf, ff = a - b, b - a
                    else:
                        tf, ff = b - a, a - b
                    walk(list(s.body) + rest, env, state, facts + [tf], absmap, flip, conds + [ast.unparse(t)])
                    walk(list(s.orelse) + rest, env, state, facts + [ff], absmap, flip, conds + ["not " + ast.unparse(t)])
                    return
                raise NotDecided("condition `%s`" % ast.unparse(t))
            elif isinstance(s, (ast.Expr, ast.Pass)):
                continue
            else:
                raise NotDecided("statement `%s`" % ast.unparse(s)[:40])
        # end of path: resolve abs symbols in facts first (facts may mention |q|)
        rfacts = list(facts)
        for _ in range(3):
            rfacts = [resolve(f, rfacts, absmap) for f in rfacts]
        fin = {k: (resolve(v, rfacts, absmap) if isinstance(v, Poly) else v) for k, v in state.items()}
        left = [s for k in ("pos", "ext") for s in fin[k].symbols() if s in absmap]
        if left:
            raise NotDecided("path [%s]: the sign of %s is not stated by the path conditions" % (", ".join(conds), left[0]))
        results.append({"cond": ", ".join(conds), "flip0": flip, "fin": fin, "facts": rfacts})

    walk(body, env0, {"pos": Poly.sym("pos"), "ext": Poly.sym("ext"), "flip": None}, [], {}, None, [])
    return st_, results


def run(ctx, prog):
    ctx.rule("R17.4", "connector end-point setters: the moved end-point takes the value, the other stays, the extent stays non-negative (every path)")
    cm = prog.modules.get("pptx.shapes.connector")
    cls = cm.classes.get("Connector") if cm else None
    if cls is None:
        ctx.error("pptx.shapes.connector", "anchor vanished: Connector")
        return
    npaths = 0
    for name, other in (("begin_x", "end_x"), ("begin_y", "end_y"), ("end_x", "begin_x"), ("end_y", "begin_y")):
        try:
            moved_f = _getter_formulas(prog, cls, name)
            other_f = _getter_formulas(prog, cls, other)
            st_, results = analyse_setter(prog, cls, name)
        except NotDecided as e:
            ctx.error("Connector.%s" % name, "not decided: %s" % e)
            continue
        if len(results) < 2:
            ctx.error("Connector.%s" % name, "fewer than two paths recognised")
            continue
        for r in results:
            npaths += 1
            key = "Connector.%s[%s]" % (name, r["cond"])
            fin = r["fin"]
            f0, f1 = r["flip0"], fin["flip"]
            sub = lambda p: p.subst("pos", fin["pos"]).subst("ext", fin["ext"]) if True else p  # noqa: E731

            def apply(form, pos, ext):
                # substitute simultaneously
                return form.subst("pos", Poly.sym("@p")).subst("ext", Poly.sym("@e")).subst("@p", pos).subst("@e", ext)

            moved1 = apply(moved_f[f1], fin["pos"], fin["ext"])
            other1 = apply(other_f[f1], fin["pos"], fin["ext"])
            other0 = other_f[f0]
            probs = []
            if moved1 != Poly.sym("new"):
                probs.append("%s reads back as %r, not the assigned value" % (name, moved1))
            if other1 != other0:
                probs.append("%s moves from %r to %r" % (other, other0, other1))
            ext1 = fin["ext"]
            nonneg = any(f == ext1 for f in r["facts"]) or any(f == ext1 - Poly.sym("ext") for f in r["facts"]) or ext1 == Poly.sym("ext")
            if not nonneg:
                probs.append("extent %r is not stated non-negative by the path conditions %s" % (ext1, [repr(f) + ">=0" for f in r["facts"]]))
            if probs:
                ctx.violation("R17.4", key, "; ".join(probs), file=st_.file, line=st_.line)
            else:
                ctx.ok("R17.4", key, sample={"path": r["cond"], "final": {"pos": repr(fin["pos"]), "ext": repr(fin["ext"]), "flip": f1},
                                             "moved": "== new", "other": "unchanged", "extent": ">= 0 by the path condition"})
    ctx.count("connector_paths", npaths)
