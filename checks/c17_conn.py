"""C17 R17.4 — connector end-point setters, decided by a path-sensitive evaluation in polynomial normal form.

Each of the four setters (begin_x, begin_y, end_x, end_y) is a tree of if/elif/else over comparisons of affine
expressions in (position, extent, new value).  Every path is evaluated abstractly: locals and the three fields written
(position, extent, flip) are polynomials over the initial symbols; comparisons on the path are recorded as facts `p >= 0`
/ `p > 0`; `abs(e)` is resolved by a fact that states the sign of `e` (syntactically, after normalisation) — no solver.
At the end of each path the getter formulas (read from the getters themselves) are applied to the final state:

    moved end-point  == the assigned value
    other end-point  == its initial value
    extent           is one of the path facts, or initial extent + a path fact  (non-negative)

An `abs` whose sign no fact decides, or any other construct, makes the path "not decided" (reported as an analysis
error, never as a pass).
"""

from __future__ import annotations

import ast

from sa.poly import Poly, of_expr
from sa.pysrc import dotted


class NotDecided(Exception):
    pass


def _preamble(fnode):
    """(elem var, env of position/extent/new symbols, flip var, field names) from the `x, cx, flip[, new] = elm.x, elm.cx, elm.flip[,
    int(value)]` preamble (tuple form or separate assignments; the function is given desugared)."""
    env, fields, flipname, elem = {}, {}, None, None
    for s in ast.walk(fnode):
        if isinstance(s, ast.Assign) and len(s.targets) == 1 and isinstance(s.targets[0], ast.Name):
            t, v = s.targets[0], s.value
            if dotted(v) == "self._element":
                elem = t.id
                continue
            a = dotted(v) or ""
            f = a.split(".")[-1]
            if elem and a.startswith(elem + ".") or a.startswith("self._element."):
                if f in ("x", "y"):
                    env[t.id] = Poly.sym("pos")
                    fields["pos"] = f
                elif f in ("cx", "cy"):
                    env[t.id] = Poly.sym("ext")
                    fields["ext"] = f
                elif f in ("flipH", "flipV"):
                    flipname = t.id
                    fields["flip"] = f
            elif isinstance(v, ast.Call) and dotted(v.func) == "int" and len(v.args) == 1 and isinstance(v.args[0], ast.Name):
                env[t.id] = Poly.sym("new")
    return elem, env, flipname, fields


def _flip_fact(fs, flipname, elem, fields, val=None):
    """value of the flip flag a path has decided; a tested name that is a copy or a negation of the flag (`far = not flipped`)
    decides it as well"""
    targets = (flipname, "%s.%s" % (elem, fields.get("flip")), "self._element.%s" % fields.get("flip"))
    for a in fs:
        if a[0] != "truthy":
            continue
        if a[1] in targets:
            return a[2]
        if val:
            try:
                e = ast.parse(a[1], mode="eval").body
            except SyntaxError:
                continue
            pol = a[2]
            for _ in range(6):
                if isinstance(e, ast.UnaryOp) and isinstance(e.op, ast.Not):
                    e, pol = e.operand, not pol
                elif isinstance(e, ast.Name) and e.id in val and e.id != flipname:
                    e = val[e.id]
                else:
                    break
            if (dotted(e) or "") in targets:
                return pol
    return None


def _getter_formulas(prog, cls, name):
    """{True: Poly, False: Poly} over symbols pos/ext: what the getter returns when the flip flag is set / clear."""
    from sa import paths as P_
    from sa.desugar import desugar

    g = cls.methods.get(name)
    if g is None:
        raise NotDecided("getter %s missing" % name)
    from sa.inline import expand

    d = desugar(expand(prog, g, local_only=True))   # a shared end-point helper is read in place
    elem, env0, flipname, fields = _preamble(d)
    if flipname is None:
        raise NotDecided("getter %s does not read the flip flag" % name)
    val = P_.value_aliases(d)
    out = {}
    for pth in P_.enum_paths(d.body):
        if pth.end != "return":
            continue
        env = dict(env0)
        for ev in pth.events:
            if ev[0] == "stmt" and isinstance(ev[1], ast.Assign) and isinstance(ev[1].targets[0], ast.Name) and ev[1].targets[0].id not in env0 \
                    and ev[1].targets[0].id not in (elem, flipname):
                try:
                    env[ev[1].targets[0].id] = of_expr(ev[1].value, env, ("Emu", "int", "Length"))
                except Exception:
                    pass
        fl = _flip_fact(P_.facts(pth), flipname, elem, fields, val)
        if fl is None:
            raise NotDecided("getter %s: a path does not decide the flip flag" % name)
        out[fl] = of_expr(pth.end_node.value, env, ("Emu", "int", "Length"))
    if set(out) != {True, False}:
        raise NotDecided("getter %s is not a two-way decision on the flip flag" % name)
    return out


def analyse_setter(prog, cls, name):
    """Path results: dict(cond=str, flip0, fin={pos, ext, flip}, facts=[Poly])."""
    from sa import paths as P_
    from sa.desugar import desugar

    st_ = cls.setters.get(name)
    if st_ is None:
        raise NotDecided("setter %s missing" % name)
    from sa.inline import expand

    d = expand(prog, st_, local_only=True)   # extracted edge-moving helpers are read in place
    elem, env0, flipname, fields = _preamble(d)
    # every local name that stands for the element (the setter's own and those of inlined helpers)
    elems = {n_.targets[0].id for n_ in ast.walk(d) if isinstance(n_, ast.Assign) and len(n_.targets) == 1 and isinstance(n_.targets[0], ast.Name)
             and dotted(n_.value) == "self._element"} | {"self._element"}
    if not (elem and flipname and set(fields) == {"pos", "ext", "flip"} and any(p == Poly.sym("new") for p in env0.values())):
        raise NotDecided("setter %s: preamble `x, cx, flip, new = elm.x, elm.cx, elm.flip, int(value)` not recognised" % name)
    results = []

    def ev(e, env, absmap):
        if isinstance(e, ast.Call) and dotted(e.func) == "abs" and len(e.args) == 1:
            q = ev(e.args[0], env, absmap)
            keyname = "|%r|" % q
            absmap[keyname] = q
            return Poly.sym(keyname)
        if isinstance(e, ast.BinOp) and isinstance(e.op, (ast.Add, ast.Sub, ast.Mult)):
            l, r = ev(e.left, env, absmap), ev(e.right, env, absmap)
            return l + r if isinstance(e.op, ast.Add) else l - r if isinstance(e.op, ast.Sub) else l * r
        if isinstance(e, ast.Name):
            if e.id not in env:
                raise NotDecided("unknown name %s" % e.id)
            return env[e.id]
        if isinstance(e, ast.Constant) and isinstance(e.value, int) and not isinstance(e.value, bool):
            return Poly.const(e.value)
        if isinstance(e, ast.UnaryOp) and isinstance(e.op, ast.USub):
            return -ev(e.operand, env, absmap)
        if isinstance(e, ast.Call) and dotted(e.func) in ("int", "Emu") and len(e.args) == 1:
            return ev(e.args[0], env, absmap)
        raise NotDecided("expression `%s` outside the affine fragment" % ast.unparse(e))

    def resolve(p, facts, absmap):
        changed = True
        while changed:
            changed = False
            for s in list(p.symbols()):
                if s in absmap:
                    q = resolve(absmap[s], facts, absmap)
                    if any(f == q for f in facts) or (q.is_const() and (q.const_value() or 0) >= 0):
                        p = p.subst(s, q)
                        changed = True
                    elif any(f == -q for f in facts):
                        p = p.subst(s, -q)
                        changed = True
        return p

    def flag_copy(e, boolenv):
        pol = True
        for _ in range(6):
            if isinstance(e, ast.UnaryOp) and isinstance(e.op, ast.Not):
                e, pol = e.operand, not pol
            else:
                break
        if isinstance(e, ast.Name) and e.id in boolenv:
            return boolenv[e.id] == pol
        if dotted(e) == flipname:
            return pol
        return None

    for pth in P_.enum_paths(d.body):
        if pth.end == "raise":
            continue
        env = dict(env0)
        state = {"pos": Poly.sym("pos"), "ext": Poly.sym("ext"), "flip": None}
        facts, absmap, conds = [], {}, []
        flip0 = None
        boolenv = {}
        for evn in pth.events:
            if evn[0] == "cond":
                t, outcome = evn[1], evn[2]
                conds.append(("" if outcome else "not ") + ast.unparse(t))
                core, pol = t, outcome
                while isinstance(core, ast.UnaryOp) and isinstance(core.op, ast.Not):
                    core, pol = core.operand, not pol
                if isinstance(core, ast.Name) and core.id in boolenv:
                    pol = pol if boolenv[core.id] else not pol
                    core = ast.Name(id=flipname, ctx=ast.Load())
                if dotted(core) == flipname or dotted(core) in {"%s.%s" % (e_, fields["flip"]) for e_ in elems}:
                    if flip0 is None and state["flip"] is None:
                        flip0 = pol
                        state["flip"] = pol
                    elif state["flip"] is not None and state["flip"] != pol:
                        break  # infeasible: contradicts the flag value already decided / written
                    continue
                if isinstance(core, ast.Compare) and len(core.ops) == 1 and isinstance(core.ops[0], (ast.GtE, ast.LtE, ast.Gt, ast.Lt)):
                    a, b = ev(core.left, env, absmap), ev(core.comparators[0], env, absmap)
                    op = core.ops[0]
                    tf, ff = (a - b, b - a) if isinstance(op, (ast.GtE, ast.Gt)) else (b - a, a - b)
                    facts.append(tf if pol else ff)
                    continue
                raise NotDecided("condition `%s`" % ast.unparse(t))
            if evn[0] != "stmt":
                raise NotDecided("statement kind %s" % evn[0])
            s = evn[1]
            if isinstance(s, ast.Assign) and len(s.targets) == 1:
                t = s.targets[0]
                if isinstance(t, ast.Name):
                    if t.id in elems or t.id == flipname or t.id in env0:
                        continue
                    fv = flag_copy(s.value, boolenv)
                    if fv is not None:
                        boolenv[t.id] = fv   # a copy (True) or the negation (False) of the flip flag read at entry
                        continue
                    env[t.id] = ev(s.value, env, absmap)
                elif isinstance(t, ast.Attribute) and dotted(t.value) in elems:
                    if t.attr == fields["flip"]:
                        v = s.value.value if isinstance(s.value, ast.Constant) else None
                        fc = flag_copy(s.value, boolenv)
                        if v is None and fc is not None and flip0 is not None:
                            v = flip0 if fc else not flip0   # `flip = not <initial flip>` on a path that has decided the initial value
                        if not isinstance(v, bool):
                            raise NotDecided("flip assigned a non-constant")
                        state["flip"] = v
                    elif t.attr == fields["pos"]:
                        state["pos"] = ev(s.value, env, absmap)
                    elif t.attr == fields["ext"]:
                        state["ext"] = ev(s.value, env, absmap)
                    else:
                        raise NotDecided("write to %s" % t.attr)
                else:
                    raise NotDecided("assignment target `%s`" % ast.unparse(t))
            elif isinstance(s, (ast.Expr, ast.Pass)):
                continue
            else:
                raise NotDecided("statement `%s`" % ast.unparse(s)[:40])
        else:
            if flip0 is None:
                raise NotDecided("a path through %s does not decide the flip flag" % name)
            rfacts = list(facts)
            for _ in range(3):
                rfacts = [resolve(f, rfacts, absmap) for f in rfacts]
            fin = {k: (resolve(v, rfacts, absmap) if isinstance(v, Poly) else v) for k, v in state.items()}
            left = [s for k in ("pos", "ext") for s in fin[k].symbols() if s in absmap]
            if left:
                raise NotDecided("path [%s]: the sign of %s is not stated by the path conditions" % (", ".join(conds), left[0]))
            results.append({"cond": ", ".join(conds), "flip0": flip0, "fin": fin, "facts": rfacts})
    return st_, results


def run(ctx, prog):
    ctx.rule("R17.4", "connector end-point setters: the moved end-point takes the value, the other stays, the extent stays non-negative (every path)")
    cm = prog.modules.get("pptx.shapes.connector")
    cls = cm.classes.get("Connector") if cm else None
    if cls is None:
        ctx.error("pptx.shapes.connector", "anchor vanished: Connector")
        return
    npaths = 0
    for name, other in (("begin_x", "end_x"), ("begin_y", "end_y"), ("end_x", "begin_x"), ("end_y", "begin_y")):
        try:
            moved_f = _getter_formulas(prog, cls, name)
            other_f = _getter_formulas(prog, cls, other)
            st_, results = analyse_setter(prog, cls, name)
        except NotDecided as e:
            ctx.error("Connector.%s" % name, "not decided: %s" % e)
            continue
        if len(results) < 2:
            ctx.error("Connector.%s" % name, "fewer than two paths recognised")
            continue
        for r in results:
            npaths += 1
            key = "Connector.%s[%s]" % (name, r["cond"])
            fin = r["fin"]
            f0, f1 = r["flip0"], fin["flip"]
            sub = lambda p: p.subst("pos", fin["pos"]).subst("ext", fin["ext"]) if True else p  # noqa: E731

            def apply(form, pos, ext):
                # substitute simultaneously
                return form.subst("pos", Poly.sym("@p")).subst("ext", Poly.sym("@e")).subst("@p", pos).subst("@e", ext)

            moved1 = apply(moved_f[f1], fin["pos"], fin["ext"])
            other1 = apply(other_f[f1], fin["pos"], fin["ext"])
            other0 = other_f[f0]
            probs = []
            if moved1 != Poly.sym("new"):
                probs.append("%s reads back as %r, not the assigned value" % (name, moved1))
            if other1 != other0:
                probs.append("%s moves from %r to %r" % (other, other0, other1))
            ext1 = fin["ext"]
            nonneg = any(f == ext1 for f in r["facts"]) or any(f == ext1 - Poly.sym("ext") for f in r["facts"]) or ext1 == Poly.sym("ext")
            if not nonneg:
                probs.append("extent %r is not stated non-negative by the path conditions %s" % (ext1, [repr(f) + ">=0" for f in r["facts"]]))
            if probs:
                ctx.violation("R17.4", key, "; ".join(probs), file=st_.file, line=st_.line)
            else:
                ctx.ok("R17.4", key, sample={"path": r["cond"], "final": {"pos": repr(fin["pos"]), "ext": repr(fin["ext"]), "flip": f1},
                                             "moved": "== new", "other": "unchanged", "extent": ">= 0 by the path condition"})
    ctx.count("connector_paths", npaths)
