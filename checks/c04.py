"""C04 — text assigned is the text read back, with only the documented translations (decidable clauses).

Rules
  R4.1  run level: the escape class of CT_RegularTextRun._escape_ctrl_chars, read from the regular expression's own parse
        tree, is exactly C0 minus {TAB, LF}; the replacement is `_x%04X_` of the code point; the run setter stores the escaped
        value in a:t and does not split; the getter returns the text or ''
  R4.2  paragraph level: the split expression's alternatives are exactly {LF, VT}; a break element is added between items
        (idx > 0), a run only for a non-empty item, in that order; a:br reads back as VT; the paragraph reader concatenates
        the text of a:r / a:br / a:fld children in document order
  R4.3  frame level: the split literal is LF; existing paragraphs are removed first; one paragraph is added per segment and
        filled by the paragraph-level routine; the frame reader joins paragraph texts with LF; cell and shape text delegate
        to the text frame
  R4.4  paragraph-level assignment keeps the paragraph's properties: clear() removes exactly the content children
        (a:r, a:br, a:fld), which are the classes the reader concatenates
  (whitespace survival through the parser's blank-text heuristics, save/re-open identity: not decided)
"""

from __future__ import annotations

import ast

from sa.pysrc import dotted
from sa.report import AnalysisError
from sa.types import walk_own

TAB, LF, VT = 0x09, 0x0A, 0x0B


def _regex_charset(pattern):
    """Set of code points matched by a pattern of the form `([...])` / `[...]` / `a|b|c` (single characters)."""
    import re._parser as sp  # type: ignore
    from re._constants import BRANCH, IN, LITERAL, RANGE, SUBPATTERN  # type: ignore

    def items(tree):
        out = set()
        for op, av in tree:
            if op == SUBPATTERN:
                out |= items(av[3])
            elif op == IN:
                for o2, a2 in av:
                    if o2 == LITERAL:
                        out.add(a2)
                    elif o2 == RANGE:
                        out |= set(range(a2[0], a2[1] + 1))
                    else:
                        raise ValueError("class item %s" % o2)
            elif op == LITERAL:
                out.add(av)
            elif op == BRANCH:
                for alt in av[1]:
                    if len(alt) != 1:
                        raise ValueError("multi-character alternative")
                    out |= items(alt)
            else:
                raise ValueError("construct %s" % op)
        return out

    tree = sp.parse(pattern)
    if len(tree) != 1:
        raise ValueError("pattern is not a single class / alternation")
    return items(tree)


def _compiled_pattern(prog, f, expr):
    """Pattern text when `expr` names a module- or class-level `re.compile(<constant>)`; None otherwise."""
    node = None
    if isinstance(expr, ast.Name):
        node = f.module.assigns.get(expr.id)
    elif isinstance(expr, ast.Attribute) and isinstance(expr.value, ast.Name) and expr.value.id in ("self", "cls") and f.cls is not None:
        a = prog.lookup_attr(f.cls, expr.attr)
        node = a[1] if a else None
    if isinstance(node, ast.Call) and dotted(node.func) == "re.compile" and node.args:
        v = prog.const(node.args[0], f.module)
        return v if isinstance(v, str) else None
    return None


def run(ctx):
    from checks.c10 import load

    prog, S, M = load(ctx.repo)
    ctx.level = "other"
    ctx.trusted = ["CPython ast", "re._parser parse trees for the two patterns", "str.split / re.split semantics"]
    ctx.explanation = (
        "The documented translations are three small tables in the code - a regular-expression class, an alternation and a split "
        "literal - plus the order of two calls and the symbol a line break reads back as. Each is read from the source (the "
        "patterns through the regex parser's own tree) and compared with the character sets the statement names; the reader and "
        "writer are checked to be each other's inverse on those symbols structurally.")
    ctx.not_decided = ["whitespace-only and leading/trailing whitespace surviving the parser's remove_blank_text heuristics",
                       "identity after save and re-open", "astral code points (lxml / libxml2 behaviour)"]

    ot = prog.modules.get("pptx.oxml.text")
    tt = prog.modules.get("pptx.text.text")
    if not (ot and tt):
        raise AnalysisError("anchor vanished: pptx.oxml.text / pptx.text.text")
    run_c = ot.classes.get("CT_RegularTextRun")
    par_c = ot.classes.get("CT_TextParagraph")
    br_c = ot.classes.get("CT_TextLineBreak")
    body_c = ot.classes.get("CT_TextBody")
    if not (run_c and par_c and br_c and body_c):
        raise AnalysisError("anchor vanished: text element classes")

    # -- R4.1 --------------------------------------------------------------------------------------------
    ctx.rule("R4.1", "run level: escape class = C0 minus {TAB, LF}; replacement _xHHHH_; no splitting")
    # the escaper is whatever the run's text setter applies to the assigned value (a static method of the run class, or a
    # module-level function)
    esc, esc_call = None, None
    rs0 = run_c.setters.get("text")
    if rs0 is not None:
        for n in ast.walk(rs0.node):
            if isinstance(n, ast.Assign) and dotted(n.targets[0]) == "self.t.text" and isinstance(n.value, ast.Call) and len(n.value.args) == 1:
                fd = dotted(n.value.func) or ""
                g = None
                if fd.startswith(("self.", "cls.")) and fd.count(".") == 1:
                    g = prog.lookup(run_c, fd.split(".")[1])
                elif fd.split(".")[0] == run_c.name and fd.count(".") == 1:
                    g = prog.lookup(run_c, fd.split(".")[1])
                elif fd:
                    g = prog.resolve(run_c.module, fd)
                if hasattr(g, "node"):
                    esc, esc_call = g, n.value
    if esc is None:
        esc = run_c.methods.get("_escape_ctrl_chars")
    if esc is None:
        raise AnalysisError("anchor vanished: the escaper applied by CT_RegularTextRun.text's setter")
    # re.sub(P, repl, s)  or  <compiled pattern>.sub(repl, s): normalised to (pattern text, replacement, subject)
    sub = []
    for n in ast.walk(esc.node):
        if isinstance(n, ast.Call) and dotted(n.func) == "re.sub" and len(n.args) >= 3:
            sub.append((prog.const(n.args[0], esc.module), n.args[1], n.args[2], n))
        elif isinstance(n, ast.Call) and isinstance(n.func, ast.Attribute) and n.func.attr == "sub" and len(n.args) >= 2:
            pt = _compiled_pattern(prog, esc, n.func.value)
            if pt is not None:
                sub.append((pt, n.args[0], n.args[1], n))
    tr = [n for n in ast.walk(esc.node) if isinstance(n, ast.Call) and isinstance(n.func, ast.Attribute) and n.func.attr == "translate"
          and dotted(n.func.value) == esc.node.args.args[-1].arg and len(n.args) == 1]
    if not sub and tr:
        # str.translate(TABLE) with TABLE = {c: FMT % c for c in range(a, b) if c not in (...)} (module level or local)
        tbl = tr[0].args[0]
        node = esc.module.assigns.get(tbl.id) if isinstance(tbl, ast.Name) else tbl
        keys, fmt_ok = None, False
        if isinstance(node, ast.DictComp) and len(node.generators) == 1 and isinstance(node.generators[0].iter, ast.Call) \
                and dotted(node.generators[0].iter.func) == "range":
            g = node.generators[0]
            bounds = [prog.const(a, esc.module) for a in g.iter.args]
            if all(isinstance(b, int) for b in bounds) and isinstance(g.target, ast.Name) and dotted(node.key) == g.target.id:
                keys = set(range(*bounds))
                for t in g.ifs:
                    if isinstance(t, ast.Compare) and dotted(t.left) == g.target.id and isinstance(t.ops[0], ast.NotIn):
                        ex = prog.const(t.comparators[0], esc.module)
                        keys -= set(ex) if isinstance(ex, tuple) else set()
                    elif isinstance(t, ast.Compare) and dotted(t.left) == g.target.id and isinstance(t.ops[0], ast.NotEq):
                        keys.discard(prog.const(t.comparators[0], esc.module))
                    else:
                        keys = None
                        break
                v = node.value
                fmt_ok = isinstance(v, ast.BinOp) and isinstance(v.op, ast.Mod) and prog.const(v.left, esc.module) == "_x%04X_" and dotted(v.right) == g.target.id
        elif isinstance(node, ast.Dict):
            d = prog.const(node, esc.module)
            if isinstance(d, dict) and all(isinstance(k, int) for k in d):
                keys = set(d)
                fmt_ok = all(v == "_x%04X_" % k for k, v in d.items())
        want = set(range(0x00, 0x20)) - {TAB, LF}
        if keys is None:
            ctx.error("CT_RegularTextRun._escape_ctrl_chars", "translate table not recognised")
        else:
            if keys == want:
                ctx.ok("R4.1", "escape-class", sample={"table": "str.translate", "class": "U+0000-U+0008, U+000B-U+001F", "kept": ["TAB", "LF"]})
            else:
                extra, missing = sorted(keys - want), sorted(want - keys)
                ctx.violation("R4.1", "escape-class", "escape class differs from C0 minus {TAB, LF}: escapes %s that must stay, leaves %s "
                              "unescaped (they are not representable in XML or are silently normalised)" % (
                                  ["U+%04X" % x for x in extra], ["U+%04X" % x for x in missing]), file=esc.file, line=esc.line)
            if fmt_ok:
                ctx.ok("R4.1", "escape-format", sample={"replacement": "_x%04X_ % code point"})
            else:
                ctx.violation("R4.1", "escape-format", "control characters are not replaced by `_x%04X_` of their code point", file=esc.file, line=esc.line)
            ctx.ok("R4.1", "escape-subject", nontrivial=False)
    elif not sub:
        ctx.error("CT_RegularTextRun._escape_ctrl_chars", "neither re.sub nor str.translate found")
    else:
        pat, rep, subj, c = sub[0]
        want = set(range(0x00, 0x20)) - {TAB, LF}
        try:
            got = _regex_charset(pat) if isinstance(pat, str) else None
        except ValueError as e:
            got = None
            ctx.error("CT_RegularTextRun._escape_ctrl_chars", "escape pattern %r outside the recognised fragment: %s" % (pat, e))
        if got is not None:
            if got == want:
                ctx.ok("R4.1", "escape-class", sample={"pattern": pat, "class": "U+0000-U+0008, U+000B-U+001F", "kept": ["TAB", "LF"]})
            else:
                extra, missing = sorted(got - want), sorted(want - got)
                ctx.violation("R4.1", "escape-class", "escape class differs from C0 minus {TAB, LF}: escapes %s that must stay, leaves %s "
                              "unescaped (they are not representable in XML or are silently normalised)" % (
                                  ["U+%04X" % x for x in extra], ["U+%04X" % x for x in missing]), file=esc.file, line=esc.line)
        # replacement: a lambda or a named function of the match returning "_x%04X_" % ord(m.group(k)), k the whole match
        body = None
        if isinstance(rep, ast.Lambda):
            body = rep.body
        elif isinstance(rep, (ast.Name, ast.Attribute)):
            g = prog.resolve(esc.module, rep.id) if isinstance(rep, ast.Name) else (prog.lookup(esc.cls, rep.attr) if esc.cls else None)
            gn = getattr(g, "node", None)
            if gn is not None:
                rets_ = [x.value for x in ast.walk(gn) if isinstance(x, ast.Return)]
                body = rets_[0] if len(rets_) == 1 else None
        good = False
        # a replacement table indexed by the matched character: TABLE[m.group(k)] with TABLE[c] == "_x%04X_" % ord(c) for every c
        if isinstance(body, ast.Subscript) and isinstance(body.slice, ast.Call) and isinstance(body.slice.func, ast.Attribute) \
                and body.slice.func.attr == "group":
            tblv = prog.const(body.value, esc.module, None, esc.cls)
            k = prog.const(body.slice.args[0], esc.module) if body.slice.args else 0
            one_group = isinstance(pat, str) and pat.startswith("(") and pat.endswith(")")
            if isinstance(tblv, dict) and tblv and (k == 0 or (k == 1 and one_group)):
                good = all(isinstance(c_, str) and len(c_) == 1 and v_ == "_x%04X_" % ord(c_) for c_, v_ in tblv.items()) \
                    and isinstance(got, set) and {ord(c_) for c_ in tblv} >= got
                body = body if good else body
                if not good:
                    ctx.violation("R4.1", "escape-format", "the replacement table does not map every escaped character to `_x%04X_` of its code point",
                                  file=esc.file, line=esc.line)
                    body = "reported"
        if body == "reported":
            pass
        elif good:
            ctx.ok("R4.1", "escape-format", sample={"replacement": "table of _x%04X_ % ord(ch)"})
            body = "reported"
        if body == "reported":
            pass
        elif isinstance(body, ast.BinOp) and isinstance(body.op, ast.Mod):
            fmt = prog.const(body.left, esc.module)
            arg = body.right
            whole = False
            if isinstance(arg, ast.Call) and dotted(arg.func) == "ord" and arg.args and isinstance(arg.args[0], ast.Call) \
                    and isinstance(arg.args[0].func, ast.Attribute) and arg.args[0].func.attr == "group":
                k = prog.const(arg.args[0].args[0], esc.module) if arg.args[0].args else 0
                one_group = isinstance(pat, str) and pat.startswith("(") and pat.endswith(")")
                whole = k == 0 or (k == 1 and one_group)
            good = fmt == "_x%04X_" and whole
        if body == "reported":
            pass
        elif body is None:
            ctx.error("CT_RegularTextRun._escape_ctrl_chars", "replacement function not recognised")
        elif good:
            ctx.ok("R4.1", "escape-format", sample={"replacement": "_x%04X_ % ord(ch)"})
        else:
            ctx.violation("R4.1", "escape-format", "control characters are not replaced by `_x%04X_` of their code point", file=esc.file, line=esc.line)
        if not (isinstance(subj, ast.Name) and subj.id == esc.node.args.args[-1].arg):
            ctx.violation("R4.1", "escape-subject", "the escape is not applied to the whole argument", file=esc.file, line=esc.line)
        else:
            ctx.ok("R4.1", "escape-subject", nontrivial=False)
    rs = run_c.setters.get("text")
    rg = run_c.methods.get("text")
    good = False
    if rs is not None:
        body = [s for s in rs.node.body if not (isinstance(s, ast.Expr) and isinstance(s.value, ast.Constant))]
        if len(body) == 1 and isinstance(body[0], ast.Assign) and dotted(body[0].targets[0]) == "self.t.text":
            v = body[0].value
            good = isinstance(v, ast.Call) and (dotted(v.func) == "self._escape_ctrl_chars" or v is esc_call) and len(v.args) == 1 \
                and dotted(v.args[0]) == rs.node.args.args[1].arg
    if good:
        ctx.ok("R4.1", "CT_RegularTextRun.text.setter", sample={"stores": "a:t text = escape(value), nothing else"})
    else:
        ctx.violation("R4.1", "CT_RegularTextRun.text.setter", "run text is not stored as the escaped value in a:t (and only that)",
                      file=run_c.file, line=rs.line if rs else run_c.line)
    # the getter in canonical form (a shared `_text_of(t)` helper is read in place): every return is `self.t.text or ""`, or the
    # constant "" on a path that has established that there is no a:t
    from sa import paths as _P4
    from sa.inline import expand as _exp4

    good, src_t = False, False
    if rg is not None:
        rgx = _exp4(prog, rg, local_only=True)
        rval = _P4.value_aliases(rgx)
        rrows = [r_ for r_ in _P4.outcomes(rgx.body, _P4.aliases(rgx)) if r_.end == "return"]
        good = bool(rrows)
        for r_ in rrows:
            v_ = ast.parse(_P4.full(r_.path.end_node.value, rval), mode="eval").body if r_.path.end_node.value is not None else None
            if isinstance(v_, ast.BoolOp) and isinstance(v_.op, ast.Or) and prog.const(v_.values[-1], rg.module) == "" \
                    and ast.unparse(v_.values[0]) == "self.t.text":
                src_t = True
            elif v_ is not None and prog.const(v_, rg.module) == "" and _P4.implied(r_.facts, lambda a: a[0] == "none" and a[1] == "self.t" and a[2] is True):
                pass
            else:
                good = False
    if good and src_t:
        ctx.ok("R4.1", "CT_RegularTextRun.text.getter", sample={"returns": "a:t text or ''"})
    else:
        ctx.violation("R4.1", "CT_RegularTextRun.text.getter", "run reader does not return the a:t text (or '')", file=run_c.file, line=rg.line if rg else run_c.line)
    prx = tt.classes.get("_Run")
    ps, pg = (prx.setters.get("text"), prx.methods.get("text")) if prx else (None, None)
    okp = ps is not None and pg is not None and any(isinstance(n, ast.Assign) and dotted(n.targets[0]) == "self._r.text" and dotted(n.value) == ps.node.args.args[1].arg
                                                   for n in ast.walk(ps.node)) and any(isinstance(n, ast.Return) and dotted(n.value) == "self._r.text" for n in ast.walk(pg.node))
    if okp:
        ctx.ok("R4.1", "_Run.text", nontrivial=False)
    else:
        ctx.violation("R4.1", "_Run.text", "_Run.text does not delegate to the run element unchanged", file=tt.relpath, line=ps.line if ps else 1)

    # -- R4.2 --------------------------------------------------------------------------------------------
    ctx.rule("R4.2", "paragraph level: split on exactly {LF, VT}; break between items, run for non-empty items; a:br reads as VT")
    at = par_c.methods.get("append_text")
    if at is None:
        raise AnalysisError("anchor vanished: CT_TextParagraph.append_text")
    from sa.inline import expand as _expand_at

    atx = _expand_at(prog, at, skip_names=("add_br", "add_r", "_add_br", "_add_r"))   # per-item helpers are read in place
    loops = [n for n in walk_own(atx) if isinstance(n, ast.For)]
    spl = None
    first_form = None  # (first-item variable, statements handling it) for the `first, *rest = split` form

    def is_split(c):
        return isinstance(c, ast.Call) and (dotted(c.func) == "re.split" or (isinstance(c.func, ast.Attribute) and c.func.attr == "split"
                                                                             and _compiled_pattern(prog, at, c.func.value) is not None))

    for lp in loops:
        it = lp.iter
        if isinstance(it, ast.Call) and dotted(it.func) == "enumerate" and it.args and is_split(it.args[0]):
            spl = (lp, it.args[0])
    if spl is None:
        # first, *rest = re.split(...);  <statements on first>;  for item in rest: ...
        for st_ in atx.body:
            if isinstance(st_, ast.Assign) and isinstance(st_.targets[0], ast.Tuple) and len(st_.targets[0].elts) == 2 \
                    and isinstance(st_.targets[0].elts[1], ast.Starred) and is_split(st_.value):
                fv = st_.targets[0].elts[0].id
                rv = st_.targets[0].elts[1].value.id
                for lp in loops:
                    if dotted(lp.iter) == rv and isinstance(lp.target, ast.Name):
                        others = [x for x in atx.body if x is not st_ and x is not lp
                                  and not (isinstance(x, ast.Expr) and isinstance(x.value, ast.Constant))]
                        pos_ = {id(x): i_ for i_, x in enumerate(atx.body)}   # by position (inlined statements keep foreign line numbers)
                        before = [x for x in others if pos_.get(id(x), -1) < pos_.get(id(lp), 1 << 30)]
                        after = [x for x in others if pos_.get(id(x), -1) > pos_.get(id(lp), 1 << 30)]
                        if not after:
                            spl = (lp, st_.value)
                            first_form = (fv, before)
    if spl is None:
        ctx.error("CT_TextParagraph.append_text", "consumption of re.split(...) not recognised (enumerate loop, or first/*rest unpacking followed by a loop)")
    else:
        lp, call = spl
        if dotted(call.func) == "re.split":
            pat = prog.const(call.args[0], at.module)
            subj = call.args[1] if len(call.args) > 1 else None
        else:
            pat = _compiled_pattern(prog, at, call.func.value)
            subj = call.args[0] if call.args else None
        try:
            got = _regex_charset(pat) if isinstance(pat, str) else None
        except ValueError as e:
            got = None
            ctx.error("CT_TextParagraph.append_text", "split pattern %r outside the recognised fragment: %s" % (pat, e))
        if got is not None:
            if got == {LF, VT}:
                ctx.ok("R4.2", "paragraph-split-set", sample={"pattern": pat, "separators": ["LF", "VT"]})
            else:
                ctx.violation("R4.2", "paragraph-split-set", "paragraph-level separators are %s, not {LF, VT}" % sorted("U+%04X" % x for x in got),
                              file=at.file, line=lp.lineno)
        if subj is None or dotted(subj) != at.node.args.args[1].arg:
            ctx.violation("R4.2", "paragraph-split-subject", "split is not applied to the whole argument", file=at.file, line=lp.lineno)
        if first_form is None:
            iv, sv = [e.id for e in lp.target.elts]
        else:
            iv, sv = None, lp.target.id
        # decision table over (idx > 0, item non-empty): which elements does one iteration add, in which order?
        class Unknown_(Exception):
            pass

        cur = {"sv": sv}

        def cond(t, first, empty):
            if isinstance(t, ast.Compare) and iv is not None and dotted(t.left) == iv and len(t.ops) == 1:
                k = prog.const(t.comparators[0], at.module)
                if isinstance(t.ops[0], ast.Gt) and k == 0:
                    return not first
                if isinstance(t.ops[0], ast.GtE) and k == 1:
                    return not first
                if isinstance(t.ops[0], ast.Eq) and k == 0:
                    return first
                if isinstance(t.ops[0], ast.NotEq) and k == 0:
                    return not first
            if isinstance(t, ast.Name) and iv is not None and t.id == iv:
                return not first
            if isinstance(t, ast.Name) and t.id == cur["sv"]:
                return not empty
            if isinstance(t, ast.UnaryOp) and isinstance(t.op, ast.Not):
                return not cond(t.operand, first, empty)
            if isinstance(t, ast.BoolOp):
                vals = [cond(v, first, empty) for v in t.values]
                return all(vals) if isinstance(t.op, ast.And) else any(vals)
            raise Unknown_("condition `%s`" % ast.unparse(t))

        def run_body(stmts, first, empty, out):
            for st in stmts:
                if isinstance(st, ast.If):
                    if run_body(st.body if cond(st.test, first, empty) else st.orelse, first, empty, out) == "continue":
                        return "continue"
                elif isinstance(st, ast.Continue):
                    return "continue"
                elif isinstance(st, ast.Expr) and isinstance(st.value, ast.Constant):
                    continue
                elif isinstance(st, ast.Expr) and isinstance(st.value, ast.Call):
                    d = dotted(st.value.func) or ""
                    if d in ("self.add_br", "self._add_br"):
                        out.append("br")
                    elif d == "self.add_r" and st.value.args and dotted(st.value.args[0]) == cur["sv"]:
                        out.append("r")
                    else:
                        raise Unknown_("call %s" % d)
                else:
                    raise Unknown_("statement `%s`" % ast.unparse(st)[:40])
            return None

        try:
            table = {}
            for first in (True, False):
                for empty in (True, False):
                    out = []
                    if first_form is None:
                        run_body(lp.body, first, empty, out)
                    elif first:
                        # the first item is handled by the statements before the loop, under its own name
                        cur["sv"] = first_form[0]
                        try:
                            run_body(first_form[1], True, empty, out)
                        finally:
                            cur["sv"] = sv
                    else:
                        run_body(lp.body, False, empty, out)
                    table[(first, empty)] = out
            want_t = {(True, True): [], (True, False): ["r"], (False, True): ["br"], (False, False): ["br", "r"]}
            if table == want_t:
                ctx.ok("R4.2", "paragraph-break-placement", sample={"per_item": "a:br before every item but the first; a:r only for a non-empty item",
                                                                    "table": {"%s/%s" % ("first" if k[0] else "later", "empty" if k[1] else "text"): v for k, v in table.items()}})
            else:
                bad = [(k, table[k], want_t[k]) for k in want_t if table[k] != want_t[k]]
                k, got_, exp_ = bad[0]
                ctx.violation("R4.2", "paragraph-break-placement", "for a %s item that is %s the loop adds %s, expected %s: the number of a:br "
                              "elements no longer equals the number of separators" % ("first" if k[0] else "later", "empty" if k[1] else "non-empty", got_, exp_),
                              file=at.file, line=lp.lineno)
        except Unknown_ as e:
            ctx.error("CT_TextParagraph.append_text", "loop body not decoded: %s" % e)
    ar = par_c.methods.get("add_r")
    good = False
    if ar is not None:
        p = ar.node.args.args[1].arg if len(ar.node.args.args) > 1 else None
        good = any(isinstance(n, ast.Assign) and isinstance(n.targets[0], ast.Attribute) and n.targets[0].attr == "text" and dotted(n.value) == p
                   for n in ast.walk(ar.node))
    if good:
        ctx.ok("R4.2", "CT_TextParagraph.add_r", nontrivial=False)
    else:
        ctx.violation("R4.2", "CT_TextParagraph.add_r", "add_r(text) does not store text through the run's text setter", file=par_c.file, line=ar.line if ar else par_c.line)
    bt = br_c.methods.get("text")
    rets = [prog.const(n.value, bt.module) for n in walk_own(bt.node) if isinstance(n, ast.Return)] if bt else []
    if rets == ["\v"]:
        ctx.ok("R4.2", "CT_TextLineBreak.text", sample={"reads_as": "VT"})
    else:
        ctx.violation("R4.2", "CT_TextLineBreak.text", "a line break reads back as %r, not VT" % rets, file=br_c.file, line=bt.line if bt else br_c.line)
    from sa.idioms import join_reader, returned_exprs
    from sa.pysrc import ClassRef

    cc = par_c.methods.get("content_children")
    if cc is None:
        raise AnalysisError("anchor vanished: CT_TextParagraph.content_children")
    content, doc_order, seen_cc = set(), False, False
    _fx, rets = returned_exprs(prog, cc)
    for v in rets:
        g = v.args[0] if isinstance(v, ast.Call) and dotted(v.func) in ("tuple", "list") and v.args else v
        if isinstance(g, (ast.GeneratorExp, ast.ListComp)) and len(g.generators) == 1 and dotted(g.generators[0].iter) == "self" \
                and len(g.generators[0].ifs) == 1:
            t = g.generators[0].ifs[0]
            if isinstance(t, ast.Call) and dotted(t.func) == "isinstance" and len(t.args) == 2 and dotted(t.args[0]) == g.generators[0].target.id:
                kinds = prog.const(t.args[1], cc.module, None, par_c)
                kinds = kinds if isinstance(kinds, (tuple, list)) else (kinds,)
                if all(isinstance(k, ClassRef) for k in kinds):
                    seen_cc = True
                    # a class stands for the registered element classes that are (subclasses of) it: a marker base / mixin selects
                    # exactly the element kinds that inherit it
                    content = {c_.name for k in kinds for c_ in M.oxml_classes() if k.cls in prog.mro(c_) and M.tags_for_class(c_)} \
                        or {k.cls.name for k in kinds}
                    elt_ = g.elt
                    while isinstance(elt_, ast.Call) and dotted(elt_.func) in ("cast", "typing.cast") and len(elt_.args) == 2:
                        elt_ = elt_.args[1]      # a typing cast hands on the element itself
                    doc_order = dotted(elt_) == g.generators[0].target.id
    want_c = {"CT_RegularTextRun", "CT_TextLineBreak", "CT_TextField"}
    if not seen_cc:
        ctx.error("CT_TextParagraph.content_children", "selection of the content children not recognised")
    elif content == want_c and doc_order:
        ctx.ok("R4.2", "content_children", sample={"classes": sorted(content), "order": "document order"})
    else:
        ctx.violation("R4.2", "content_children", "paragraph content is %s (document order: %s), expected a:r, a:br, a:fld in document order" % (
            sorted(content), doc_order), file=par_c.file, line=cc.line)
    for cls, f in ((par_c, par_c.methods.get("text")), (tt.classes.get("_Paragraph"), tt.classes.get("_Paragraph").methods.get("text"))):
        key = "%s.text.getter" % cls.name
        if f is None:
            raise AnalysisError("anchor vanished: %s.text" % cls.name)
        jr = join_reader(prog, f)
        _fx2, rets2 = returned_exprs(prog, f)
        delegates = cls is not par_c and len(rets2) == 1 and ast.unparse(rets2[0]) in ("self._p.text", "self._element.text")
        if delegates:
            ctx.ok("R4.2", key, sample={"reads": "the a:p element's own text"})
        elif jr is None:
            ctx.error(key, "paragraph reader not recognised (expected ''.join(child.text for child in content_children))")
        elif jr["sep"] == "" and jr["elt"] == "_.text" and (jr["terminal"] or "").endswith("content_children") and not jr["filtered"]:
            ctx.ok("R4.2", key, sample={"reads": "''.join(child.text for child in content_children)"})
        else:
            ctx.violation("R4.2", key, "paragraph reader is not the plain concatenation of its content children's text (%s)" % jr,
                          file=f.file, line=f.line)

    # -- R4.3 --------------------------------------------------------------------------------------------
    ctx.rule("R4.3", "frame level: split on LF; old paragraphs removed; one paragraph per segment; reader joins with LF")
    tf = tt.classes.get("TextFrame")
    ts, tg = (tf.setters.get("text"), tf.methods.get("text")) if tf else (None, None)
    if not (ts and tg):
        raise AnalysisError("anchor vanished: TextFrame.text")
    from sa import inline as _inl
    from sa.inline import expand as _expand
    from sa.types import Types as _Types

    _inl.use_types(_Types(prog, M))   # calls on typed receivers (txBody.add_p_containing(text)) resolve to their method
    tsx = _expand(prog, ts, skip_names=("clear_content", "add_p", "append_text"))   # helpers inlined down to the rule's vocabulary
    body = [s for s in tsx.body if not (isinstance(s, ast.Expr) and isinstance(s.value, ast.Constant))]
    loops = [(i, s) for i, s in enumerate(body) if isinstance(s, ast.For)]
    clear_i = next((i for i, s in enumerate(body) if isinstance(s, ast.Expr) and isinstance(s.value, ast.Call)
                    and (dotted(s.value.func) or "").endswith("clear_content")), None)
    probs = []
    if len(loops) != 1:
        probs.append("expected one loop over the segments")
    else:
        li, lp = loops[0]
        it = lp.iter
        if isinstance(it, ast.Name):
            from sa import paths as _P43

            it = _P43.value_aliases(tsx).get(it.id, it)    # the segments handed to a helper that loops over them
        sep = None
        if isinstance(it, ast.Call) and isinstance(it.func, ast.Attribute) and it.func.attr == "split" and dotted(it.func.value) == ts.node.args.args[1].arg \
                and len(it.args) == 1:
            sep = prog.const(it.args[0], ts.module)
        elif isinstance(it, ast.Call) and isinstance(it.func, ast.Attribute) and it.func.attr == "splitlines" and dotted(it.func.value) == ts.node.args.args[1].arg:
            sep = "<every line boundary (str.splitlines)>"
        elif isinstance(it, ast.Call) and dotted(it.func) == "re.split" and len(it.args) == 2 and dotted(it.args[1]) == ts.node.args.args[1].arg:
            sep = "<pattern %r>" % (prog.const(it.args[0], ts.module),)
        if sep != "\n":
            probs.append("segments are split on %r, not LF" % (sep,))
        if clear_i is None or clear_i > li:
            probs.append("existing paragraphs are not removed before the new ones are added")
        addp = None
        filled = False
        for st in lp.body:
            if isinstance(st, ast.Assign) and isinstance(st.value, ast.Call) and (dotted(st.value.func) or "").endswith(".add_p"):
                addp = st.targets[0].id
            if isinstance(st, ast.Expr) and isinstance(st.value, ast.Call) and addp and dotted(st.value.func) == addp + ".append_text" \
                    and dotted(st.value.args[0]) == lp.target.id:
                filled = True
            # chained: X.add_p().append_text(segment)
            if isinstance(st, ast.Expr) and isinstance(st.value, ast.Call) and isinstance(st.value.func, ast.Attribute) \
                    and st.value.func.attr == "append_text" and isinstance(st.value.func.value, ast.Call) \
                    and isinstance(st.value.func.value.func, ast.Attribute) and st.value.func.value.func.attr == "add_p" \
                    and st.value.args and dotted(st.value.args[0]) == lp.target.id:
                addp, filled = "<chained>", True
        if not (addp and filled) or any(isinstance(x, (ast.If, ast.Continue, ast.Break)) for x in ast.walk(lp)):
            probs.append("not exactly one paragraph added and filled per segment")
    if probs and any(p_ in ("segments are split on None, not LF", "expected one loop over the segments") for p_ in probs):
        # how the assigned text is cut into segments was not recognised: an analysis gap, not a counter-fact
        ctx.error("TextFrame.text.setter", "; ".join(probs))
    elif probs:
        ctx.violation("R4.3", "TextFrame.text.setter", "; ".join(probs), file=ts.file, line=ts.line)
    else:
        ctx.ok("R4.3", "TextFrame.text.setter", sample={"split": "LF", "per_segment": "add_p(); append_text(segment)", "first": "clear_content()"})
    cl = body_c.methods.get("clear_content")
    if cl is None:
        raise AnalysisError("anchor vanished: CT_TextBody.clear_content")
    clx = _expand(prog, cl, skip_names=("remove", "remove_all"))
    good = any(isinstance(n, ast.For) and dotted(n.iter) == "self.p_lst" and any(
        isinstance(c, ast.Call) and dotted(c.func) == "self.remove" and dotted(c.args[0]) == n.target.id for c in ast.walk(n))
        and not any(isinstance(x, (ast.If, ast.Continue, ast.Break)) for x in ast.walk(n)) for n in ast.walk(clx))
    ra = [c for c in ast.walk(clx) if isinstance(c, ast.Call) and dotted(c.func) == "self.remove_all"]
    if ra and not good:
        tags = [prog.const(a, cl.module) for c in ra for a in c.args]
        good = tags == ["a:p"] and not any(isinstance(x, (ast.If, ast.For, ast.While)) for x in ast.walk(clx))
    if good:
        ctx.ok("R4.3", "CT_TextBody.clear_content", sample={"removes": "every a:p, nothing else"})
    else:
        ctx.violation("R4.3", "CT_TextBody.clear_content", "clear_content does not remove exactly the a:p children", file=body_c.file, line=cl.line if cl else body_c.line)
    jr = join_reader(prog, tg)
    if jr is None:
        ctx.error("TextFrame.text.getter", "frame reader not recognised (expected LF.join(paragraph.text for every paragraph))")
    elif jr["sep"] == "\n" and jr["elt"] == "_.text" and jr["terminal"] in ("self.paragraphs", "self._txBody.p_lst") and not jr["filtered"]:
        ctx.ok("R4.3", "TextFrame.text.getter", sample={"reads": "LF.join(paragraph.text for every paragraph)", "source": jr["terminal"]})
    else:
        ctx.violation("R4.3", "TextFrame.text.getter", "frame reader does not join every paragraph's text with LF (%s)" % jr, file=tg.file, line=tg.line)
    pp = tf.methods.get("paragraphs")
    from sa.desugar import desugar as _ds4

    good = any(isinstance(n, (ast.ListComp, ast.GeneratorExp)) and not n.generators[0].ifs and dotted(n.generators[0].iter) == "self._txBody.p_lst"
               for n in ast.walk(_ds4(pp.node))) if pp else False   # (map / partial pipelines read as comprehensions)
    if good:
        ctx.ok("R4.3", "TextFrame.paragraphs", nontrivial=False)
    else:
        ctx.violation("R4.3", "TextFrame.paragraphs", "paragraphs is not every a:p of the body in order", file=tf.file, line=pp.line if pp else tf.line)
    for mod, cname in (("pptx.table", "_Cell"), ("pptx.shapes.autoshape", "Shape")):
        c = prog.cls(mod, cname)
        s_, g_ = c.setters.get("text"), c.methods.get("text")
        okd = s_ is not None and g_ is not None and any(
            isinstance(n, ast.Assign) and dotted(n.targets[0]) == "self.text_frame.text" and dotted(n.value) == s_.node.args.args[1].arg for n in ast.walk(s_.node)) \
            and any(isinstance(n, ast.Return) and dotted(n.value) == "self.text_frame.text" for n in ast.walk(g_.node))
        if okd:
            ctx.ok("R4.3", "%s.text" % cname, sample={"delegates": "text_frame.text"})
        else:
            ctx.violation("R4.3", "%s.text" % cname, "%s.text does not delegate to its text frame unchanged" % cname, file=c.file, line=s_.line if s_ else c.line)

    # -- R4.4 --------------------------------------------------------------------------------------------
    ctx.rule("R4.4", "paragraph-level assignment removes exactly the content children and keeps the paragraph's properties")
    pr = tt.classes.get("_Paragraph")
    pc, pset = pr.methods.get("clear"), pr.setters.get("text")
    removed_pop = None
    for n in ast.walk(pc.node) if pc else []:
        if isinstance(n, ast.For) and isinstance(n.iter, ast.BinOp):
            parts = []

            def flat(e):
                if isinstance(e, ast.BinOp) and isinstance(e.op, ast.Add):
                    flat(e.left)
                    flat(e.right)
                else:
                    parts.append(e)
            flat(n.iter)
            if all(isinstance(x, ast.Attribute) and x.attr.endswith("_lst") for x in parts):
                removed_pop = {x.attr[:-4] for x in parts}
    if removed_pop is not None:
        cls_tag = {"r": "CT_RegularTextRun", "br": "CT_TextLineBreak", "fld": "CT_TextField"}
        pop = {cls_tag.get(t, t) for t in removed_pop}
        if pop != content:
            ctx.violation("R4.4", "_Paragraph.clear", "clear() removes %s, but the paragraph's content (what the reader concatenates) is %s: "
                          "%s survive a paragraph-level assignment and their text is read back in front of the new text" % (
                              sorted(removed_pop), sorted(content), sorted(content - pop)), file=pr.file, line=pc.line)
        else:
            ctx.ok("R4.4", "_Paragraph.clear", sample={"removes": sorted(removed_pop)})
    from sa import paths as P_
    from sa.fielddeps import field_aliases

    fa = field_aliases(prog, pr)

    def N(e, al):
        """normalised source: locals substituted, fields bound to the same object in __init__ written as one"""
        import copy

        class FA(ast.NodeTransformer):
            def visit_Attribute(self_, x):
                x = self_.generic_visit(x)
                if isinstance(x.value, ast.Name) and x.value.id == "self" and x.attr in fa:
                    return ast.Attribute(value=x.value, attr=fa[x.attr], ctx=x.ctx)
                return x
        return ast.unparse(FA().visit(ast.parse(P_.norm(e, al), mode="eval").body))

    elem = "self." + fa.get("_element", "_element")
    pcx = _expand(prog, pc, skip_names=("remove", "content_children")) if pc else None
    pal = P_.aliases(pcx) if pcx is not None else {}
    good = removed_pop is None and pcx is not None and any(
        isinstance(n, ast.For) and N(n.iter, pal) == elem + ".content_children" and isinstance(n.target, ast.Name) and any(
            isinstance(c, ast.Call) and isinstance(c.func, ast.Attribute) and c.func.attr == "remove" and N(c.func.value, pal) == elem
            and c.args and dotted(c.args[0]) == n.target.id for c in ast.walk(n))
        and not any(isinstance(x, (ast.If, ast.Continue, ast.Break)) for x in ast.walk(n)) for n in ast.walk(pcx))
    others = [ast.unparse(c.func) for c in ast.walk(pcx) if isinstance(c, ast.Call) and isinstance(c.func, ast.Attribute)
              and N(c.func.value, pal) == elem and c.func.attr != "remove"] if pcx is not None else []
    if removed_pop is not None:
        pass
    elif good and not others:
        ctx.ok("R4.4", "_Paragraph.clear", sample={"removes": "a:r, a:br, a:fld children only (a:pPr, a:endParaRPr stay)"})
    else:
        ctx.violation("R4.4", "_Paragraph.clear", "clear() does not remove exactly the content children (other element calls: %s)" % others,
                      file=pr.file, line=pc.line if pc else pr.line)
    if pset is None:
        raise AnalysisError("anchor vanished: _Paragraph.text setter")
    psx = _expand(prog, pset, skip_names=("clear", "append_text"))
    sal = P_.aliases(psx)
    body = [s for s in psx.body if not (isinstance(s, ast.Expr) and isinstance(s.value, ast.Constant))]
    seq = [N(s.value.func, sal) for s in body if isinstance(s, ast.Expr) and isinstance(s.value, ast.Call)]
    calls_ = [s.value for s in body if isinstance(s, ast.Expr) and isinstance(s.value, ast.Call)]
    if seq == ["self.clear", elem + ".append_text"] and dotted(calls_[1].args[0]) == pset.node.args.args[1].arg \
            and not any(isinstance(x, (ast.If, ast.For, ast.While)) for x in ast.walk(psx)):
        ctx.ok("R4.4", "_Paragraph.text.setter", sample={"steps": "clear(); append_text(value)"})
    else:
        ctx.violation("R4.4", "_Paragraph.text.setter", "paragraph assignment is not clear() followed by append_text(value) (%s)" % seq,
                      file=pr.file, line=pset.line if pset else pr.line)
