"""C15 — images are stored once, with the type of the actual image (decidable clauses).

Rules
  R15.1  table chain: every extension Image.ext can produce is a key of image_content_types; that (ext, type) pair is a
         row of default_content_types (so [Content_Types].xml declares it by Default) and the type maps to ImagePart in the
         part-class registry (so the SHA1 index is rebuilt after re-open); media types likewise map to MediaPart
  R15.2  lookup before create: _ImageParts / _MediaParts get_or_add_* consult _find_by_sha1 and create only when it found
         nothing; the digest looked up is that of the bytes stored (same object: image.sha1 / image.blob)
  R15.3  the part's extension and content type come from the detected format (Image.ext / Image.content_type), not from
         the file name; ImagePart.new passes image.blob unchanged
  R15.4  axis pairing: the native width is computed from the horizontal dpi and the pixel width, the native height from the
         vertical dpi and the pixel height (component-wise dependency analysis through tuple unpacking and indexing)
  (byte equality, DPI normalisation values and scaling arithmetic: not decided)
"""

from __future__ import annotations

import ast

from sa.pysrc import ClassInfo, Unknown, dotted
from sa.report import AnalysisError
from sa.types import walk_own


def part_class_registry(prog, ctx):
    """{content type: part class} as pptx/__init__.py builds it: the literal table plus the rows added afterwards
    (`map.update(<dict | dict comprehension | pairs>)`, `map[k] = C`, `for ct in <table>: map[ct] = C`).  A row that does not fold is
    an ANALYSIS-ERROR (shared by C15 R15.1 and C02 R2.5)."""
    init = prog.modules.get("pptx")
    if init is None:
        raise AnalysisError("anchor vanished: pptx/__init__.py")
    reg = {}
    tbl = init.assigns.get("content_type_to_part_class_map")
    if tbl is None:
        raise AnalysisError("anchor vanished: content_type_to_part_class_map")
    for k, v in zip(tbl.keys, tbl.values):
        kv = prog.const(k, init)
        cv = prog.resolve(init, dotted(v) or "")
        if isinstance(kv, str) and isinstance(cv, ClassInfo):
            reg[kv] = cv
    # rows added after the literal: `map.update(<dict | dict comprehension | pairs>)`, `map[k] = C`, `for ct in <table>: map[ct] = C`
    from sa.pysrc import ClassRef as _CR, Unknown as _Unk

    def class_of(v):
        if isinstance(v, _CR):
            return v.cls
        return None

    def add_rows(val):
        items = list(val.items()) if isinstance(val, dict) else list(val) if isinstance(val, (tuple, list)) else None
        if items is None:
            return False
        for it_ in items:
            if not (isinstance(it_, (tuple, list)) and len(it_) == 2 and isinstance(it_[0], str) and class_of(it_[1]) is not None):
                return False
        for k_, v_ in items:
            reg[k_] = class_of(v_)
        return True

    for n in ast.walk(init.tree):
        if isinstance(n, ast.Call) and isinstance(n.func, ast.Attribute) and n.func.attr == "update" \
                and dotted(n.func.value) == "content_type_to_part_class_map" and n.args:
            val = prog.const(n.args[0], init)
            if isinstance(val, _Unk) or not add_rows(val):
                ctx.error("pptx.__init__", "rows added to the part-class registry by `%s` do not fold" % ast.unparse(n)[:80])
        if isinstance(n, ast.For):
            it = prog.const(n.iter, init)
            if isinstance(it, dict):
                it = tuple(it)
            if isinstance(it, frozenset):
                it = tuple(sorted(it))
            for b in n.body:
                if isinstance(b, ast.Assign) and isinstance(b.targets[0], ast.Subscript) and dotted(b.targets[0].value) == "content_type_to_part_class_map":
                    cv = prog.resolve(init, dotted(b.value) or "")
                    if isinstance(it, (tuple, list)) and isinstance(cv, ClassInfo) and dotted(b.targets[0].slice) == dotted(n.target) \
                            and all(isinstance(x, str) for x in it):
                        for x in it:
                            reg[x] = cv
                    else:
                        ctx.error("pptx.__init__", "rows added to the part-class registry by the loop at line %d do not fold" % n.lineno)
        if isinstance(n, ast.Assign) and isinstance(n.targets[0], ast.Subscript) and dotted(n.targets[0].value) == "content_type_to_part_class_map" \
                and not any(isinstance(p_, ast.For) and any(x is n for x in ast.walk(p_)) for p_ in ast.walk(init.tree)):
            kv = prog.const(n.targets[0].slice, init)
            cv = prog.resolve(init, dotted(n.value) or "")
            if isinstance(kv, str) and isinstance(cv, ClassInfo):
                reg[kv] = cv
    return reg


def run(ctx):
    from checks.c10 import load

    prog, S, M = load(ctx.repo)
    ctx.level = "other"
    ctx.trusted = ["CPython ast", "constant folding of the literal tables", "Pillow reports the format of the actual image bytes"]
    ctx.explanation = (
        "De-duplication and typing of images rest on four literal tables and two lookup-before-create call sites; the tables "
        "are folded from the source and chained (format -> extension -> content type -> Default row -> part class), and the call "
        "sites are checked for the lookup dominating the creation and for hashing the bytes that are stored.")
    ctx.not_decided = ["byte equality of stored and returned blobs (run-time)", "DPI normalisation and scaling arithmetic"]

    img = prog.cls("pptx.parts.image", "Image")
    ext_f = img.methods.get("ext")
    if ext_f is None:
        raise AnalysisError("anchor vanished: Image.ext")
    from sa.paths import tables_by_use

    ext_map = None
    for v, node_ in tables_by_use(prog, ext_f):
        if all(isinstance(k, str) and isinstance(x, str) for k, x in v.items()):
            ext_map = v
    if not isinstance(ext_map, dict) or not ext_map:
        raise AnalysisError("Image.ext: format table does not fold")
    spec = prog.modules.get("pptx.opc.spec")
    ict = prog.const(spec.assigns["image_content_types"], spec) if spec and "image_content_types" in spec.assigns else None
    dct = prog.const(spec.assigns["default_content_types"], spec) if spec and "default_content_types" in spec.assigns else None
    if not isinstance(ict, dict) or not isinstance(dct, tuple):
        raise AnalysisError("pptx.opc.spec tables do not fold")
    init = prog.modules["pptx"]
    reg = part_class_registry(prog, ctx)
    ctx.count("format_rows", len(ext_map))
    ctx.count("image_content_types", len(ict))
    ctx.count("default_rows", len(dct))
    ctx.count("registry_rows", len(reg))

    ctx.rule("R15.1", "format -> extension -> content type -> Default row -> ImagePart")
    imgpart = prog.cls("pptx.parts.image", "ImagePart")
    dset = set(dct)
    for fmt, ext in sorted(ext_map.items()):
        key = "format %s" % fmt
        ct = ict.get(ext)
        if ct is None:
            ctx.violation("R15.1", key, "extension %r has no row in image_content_types: Image.content_type raises KeyError" % ext,
                          file=ext_f.file, line=ext_f.line)
            continue
        probs = []
        if (ext, ct) not in dset:
            probs.append("(%s, %s) is not a Default content-type row: the part gets an Override instead of a Default" % (ext, ct))
        rc = reg.get(ct)
        if rc is not imgpart:
            probs.append("%s maps to %s in the part-class registry: re-opened pictures are not ImagePart and escape the SHA1 index"
                         % (ct, rc.name if rc else None))
        if probs:
            ctx.violation("R15.1", key, "; ".join(probs), file=spec.relpath, line=1)
        else:
            ctx.ok("R15.1", key, sample={"format": fmt, "ext": ext, "content_type": ct, "default_row": True, "class": "ImagePart"})
    # every image content type a re-opened package can carry is ImagePart
    for ext, ct in sorted(ict.items()):
        if reg.get(ct) is not imgpart:
            ctx.violation("R15.1", "type %s" % ct, "image content type %s (.%s) is not registered to ImagePart" % (ct, ext),
                          file=init.relpath, line=1)
        else:
            ctx.ok("R15.1", "type %s/%s" % (ext, ct), nontrivial=False)
    # lower-case canonical extensions (statement: extension of the actual format)
    bad_case = [e for e in ext_map.values() if e != e.lower()]
    if bad_case:
        ctx.violation("R15.1", "ext-case", "non-lowercase canonical extensions %s" % bad_case, file=ext_f.file, line=ext_f.line)
    media = prog.cls("pptx.parts.media", "MediaPart")
    vid = prog.cls("pptx.media", "Video")
    vext = vid.methods.get("ext")
    vmap = None
    for n in walk_own(vext.node) if vext else []:
        if isinstance(n, ast.Dict):
            vmap = prog.const(n, vext.module)
    if isinstance(vmap, dict):
        for ct, ext in sorted(vmap.items()):
            key = "video %s" % ext
            if reg.get(ct) is media:
                ctx.ok("R15.1", key, sample={"content_type": ct, "ext": ext, "class": "MediaPart"})
            else:
                ctx.violation("R15.1", key, "video content type %s is not registered to MediaPart" % ct, file=init.relpath, line=1)
    else:
        ctx.error("Video.ext", "extension table does not fold")

    ctx.rule("R15.2", "lookup by SHA1 dominates creation; the digest is that of the stored bytes")
    pk = prog.modules["pptx.package"]
    for cname, meth, newcls in (("_ImageParts", "get_or_add_image_part", "ImagePart"), ("_MediaParts", "get_or_add_media_part", "MediaPart")):
        c = pk.classes.get(cname)
        f = c.methods.get(meth) if c else None
        if f is None:
            raise AnalysisError("anchor vanished: %s.%s" % (cname, meth))
        key = "%s.%s" % (cname, meth)
        finds = [n for n in walk_own(f.node) if isinstance(n, ast.Call) and isinstance(n.func, ast.Attribute)
                 and n.func.attr == "_find_by_sha1"]
        news = [n for n in walk_own(f.node) if isinstance(n, ast.Call) and dotted(n.func) == newcls + ".new"]
        ok = bool(finds) and bool(news) and finds[0].lineno <= news[0].lineno
        # creation guarded by the lookup result
        guarded = False
        var = None
        for n in walk_own(f.node):
            if isinstance(n, ast.Assign) and n.value in finds and isinstance(n.targets[0], ast.Name):
                var = n.targets[0].id
        from sa import paths as P_
        from sa.desugar import desugar as _desugar

        fdx = _desugar(f.node)
        for n in walk_own(fdx):   # the lookup result by whatever name the canonical form holds it
            if isinstance(n, ast.Assign) and isinstance(n.targets[0], ast.Name) and isinstance(n.value, ast.Call) \
                    and isinstance(n.value.func, ast.Attribute) and n.value.func.attr == "_find_by_sha1":
                var = n.targets[0].id
        news_d = [n for n in walk_own(fdx) if isinstance(n, ast.Call) and dotted(n.func) == newcls + ".new"]
        n_paths = 0
        guarded = bool(var) and bool(news_d)
        for pth in P_.enum_paths(fdx.body):
            for cn in news_d:
                i = pth.index_of(cn)
                if i is None:
                    continue
                n_paths += 1
                if not P_.implied(P_.facts(pth, i), lambda a_: (a_[0] == "none" and a_[1] == var and a_[2] is True)
                                  or (a_[0] == "truthy" and a_[1] == var and a_[2] is False)):
                    guarded = False   # a new part is created on a path that has not established that the lookup found nothing
        guarded = guarded and n_paths > 0
        # digest argument and stored object are the same image/media object
        same = False
        if finds and news and finds[0].args and isinstance(finds[0].args[0], ast.Attribute) and finds[0].args[0].attr == "sha1":
            obj = dotted(finds[0].args[0].value)
            same = any(dotted(a) == obj for a in news[0].args)
        # provenance of the returned part: only the package-wide scan or a new part (a private memo would go stale
        # when a part leaves the package)
        def origins(e, depth=0):
            if e is None or depth > 4:
                return {"?"}
            if e in finds:
                return {"scan"}
            if e in news:
                return {"new"}
            if isinstance(e, ast.IfExp):
                return origins(e.body, depth + 1) | origins(e.orelse, depth + 1)
            if isinstance(e, ast.BoolOp):
                out = set()
                for v_ in e.values:
                    out |= origins(v_, depth + 1)
                return out
            if isinstance(e, ast.Name):
                defs = [n.value for n in walk_own(f.node) if isinstance(n, ast.Assign) and any(isinstance(t, ast.Name) and t.id == e.id for t in n.targets)]
                if not defs:
                    return {"?" + e.id}
                out = set()
                for d in defs:
                    out |= origins(d, depth + 1)
                return out
            return {ast.unparse(e)[:50]}

        rets = [n.value for n in walk_own(f.node) if isinstance(n, ast.Return)]
        org = set()
        for r in rets:
            org |= origins(r)
        foreign = sorted(o for o in org if o not in ("scan", "new"))
        if ok and guarded and same and foreign:
            ctx.violation("R15.2", key + ":origin", "the returned part can come from %s, not only from the package-wide SHA1 scan or a new part: "
                          "a remembered part that has since left the package is handed out again under a name that may have been reused"
                          % foreign, file=f.file, line=f.line)
        elif ok and guarded and same:
            ctx.ok("R15.2", key, sample={"lookup": ast.unparse(finds[0]), "create": ast.unparse(news[0]), "guard": "only when not found"})
        else:
            ctx.violation("R15.2", key, "creation of a %s is not guarded by a SHA1 lookup of the same object (lookup=%s guarded=%s "
                          "same-object=%s)" % (newcls, bool(finds), guarded, same), file=f.file, line=f.line)
        from sa import paths as P_
        from sa.inline import expand as _expand

        fb = c.methods.get("_find_by_sha1")
        if fb is None:
            raise AnalysisError("anchor vanished: %s._find_by_sha1" % cname)
        fbx = _expand(prog, fb, local_only=True)
        param = fb.node.args.args[1].arg if len(fb.node.args.args) > 1 else None
        found, seen_loop = False, False
        for n in ast.walk(fbx):
            if isinstance(n, ast.For) and dotted(n.iter) == "self" and isinstance(n.target, ast.Name):
                seen_loop = True
                v = n.target.id
                for r in P_.outcomes(n.body, P_.aliases(fbx)):
                    if r.end == "return" and r.value == v and P_.implied(r.facts, lambda a_: a_[0] == "cmp" and a_[1] == "Eq" and a_[4] is True
                                                                           and {a_[2], a_[3]} == {v + ".sha1", param}):
                        found = True
        if not seen_loop:
            ctx.error("%s._find_by_sha1" % cname, "scan over the existing parts not recognised")
        elif found:
            ctx.ok("R15.2", "%s._find_by_sha1" % cname, sample={"scan": "for part in self: if part.sha1 == sha1: return part"})
        else:
            ctx.violation("R15.2", "%s._find_by_sha1" % cname, "lookup does not compare the digest of every existing part and return "
                          "the match", file=pk.relpath, line=fb.line)
        # the scan covers every part reachable by an image / media relationship of the whole package
        from sa.inline import with_self_class as _wsc

        it = prog.lookup(c, "__iter__")   # own, or inherited from a base shared by the image and the media view
        if it is None:
            raise AnalysisError("anchor vanished: %s.__iter__" % cname)
        want = {"_ImageParts": {"RT.IMAGE"}, "_MediaParts": {"RT.MEDIA", "RT.VIDEO"}}[cname]
        itx = _expand(prog, _wsc(it, c), local_only=True)
        ial, ival = P_.aliases(itx), P_.value_aliases(itx)
        loops_ = [n for n in ast.walk(itx) if isinstance(n, ast.For) and isinstance(n.iter, ast.Call) and P_.norm(n.iter.func, ial) == "self._package.iter_rels"
                  and isinstance(n.target, ast.Name)]
        whole = bool(loops_)
        got, skips_on_mismatch = set(), False
        for lp in loops_:
            rv = lp.target.id
            for pth in P_.enum_paths(lp.body):
                if not any(isinstance(x, ast.Yield) for st in pth.stmts() for x in ast.walk(st)):
                    continue
                for a_ in P_.facts(pth, None, ial):
                    # what the path has established about the relationship type before it hands the part out
                    alts = [a_] if a_[0] != "or" else [x for alt in a_[1] for x in alt]
                    for x in alts:
                        if x[0] == "cmp" and x[1] in ("Eq", "NotEq") and x[2] == rv + ".reltype" and x[4] is (x[1] == "Eq"):
                            got.add(x[3])
                            skips_on_mismatch = True
                        if x[0] == "in" and x[1] == rv + ".reltype" and x[3] is True:
                            names = ast.parse(P_.full(x[2], ival), mode="eval").body
                            if isinstance(names, (ast.Tuple, ast.List, ast.Set)):
                                byval_ = {prog.const(ast.parse(w_, mode="eval").body, it.module): w_ for w_ in want}
                                # (a class table may already have been folded to the relationship-type strings themselves)
                                got |= {dotted(e) or byval_.get(prog.const(e, it.module), ast.unparse(e)) for e in names.elts}
                                skips_on_mismatch = True
                            else:
                                # a table of the class (`self._reltypes`), folded for this class and compared by value
                                tv = prog.const(names, it.module, None, c)
                                if isinstance(tv, (tuple, list, frozenset)) and all(isinstance(q, str) for q in tv):
                                    byval = {prog.const(ast.parse(w_, mode="eval").body, it.module): w_ for w_ in want}
                                    got |= {byval.get(q, q) for q in tv}
                                    skips_on_mismatch = True
        if not whole:
            ctx.error("%s.__iter__" % cname, "walk over the package relationships not recognised")
            continue
        if whole and skips_on_mismatch and want <= got:
            ctx.ok("R15.2", "%s.__iter__" % cname, sample={"walks": "self._package.iter_rels()", "keeps": sorted(got)})
        else:
            ctx.violation("R15.2", "%s.__iter__" % cname, "existing parts scanned for a duplicate do not cover every %s relationship of "
                          "the package (whole-package walk=%s kept=%s)" % (sorted(want), whole, sorted(got)), file=pk.relpath,
                          line=it.line if it else 1)
    # who may create: image / media parts are constructed only by the get_or_add methods (and the loader via the registry)
    allowed = {"_ImageParts.get_or_add_image_part", "_MediaParts.get_or_add_media_part"}
    ncre = 0
    for g in prog.all_functions():
        for n in ast.walk(g.node):
            if isinstance(n, ast.Call) and dotted(n.func) in ("ImagePart.new", "MediaPart.new", "ImagePart", "MediaPart"):
                ncre += 1
                if g.qualname in allowed:
                    ctx.ok("R15.2", "creator %s" % g.qualname, nontrivial=False)
                else:
                    ctx.violation("R15.2", "creator %s" % g.qualname, "%s is called outside the get-or-add methods: a second part with "
                                  "the same bytes can be created" % dotted(n.func), file=g.file, line=n.lineno)
    ctx.count("part_creation_sites", ncre)
    # digests hash the stored bytes: the sha1 member depends on the blob field only and applies hashlib.sha1
    from sa.fielddeps import deps, local_sources, stored_from_param

    for mod, cn in (("pptx.parts.image", "Image"), ("pptx.parts.image", "ImagePart"), ("pptx.parts.media", "MediaPart"),
                    ("pptx.media", "Video")):
        c = prog.cls(mod, cn)
        f = prog.lookup(c, "sha1")
        if f is None:
            raise AnalysisError("anchor vanished: %s.sha1" % cn)
        fields, calls = deps(prog, c, "sha1")
        blobf, _ = deps(prog, c, "blob")
        q = "%s.sha1" % cn
        hexd = any(isinstance(n, ast.Return) and isinstance(n.value, ast.Call) and isinstance(n.value.func, ast.Attribute)
                   and n.value.func.attr == "hexdigest" and isinstance(n.value.func.value, ast.Call)
                   and dotted(n.value.func.value.func) == "hashlib.sha1" for n in ast.walk(f.node))
        if fields == {"_blob"} and blobf == {"_blob"} and hexd:
            ctx.ok("R15.2", q, sample={"depends_on": sorted(fields), "digest": "hashlib.sha1(...).hexdigest()", "blob property reads": sorted(blobf)})
        else:
            ctx.violation("R15.2", q, "digest is not the SHA1 hex digest of exactly the stored blob (reads fields %s; blob reads %s; "
                          "sha1-hexdigest return=%s)" % (sorted(fields), sorted(blobf), hexd), file=f.file, line=f.line)

    ctx.rule("R15.3", "extension, content type and pixel size are functions of the stored bytes only; the bytes read are the bytes stored")
    f = prog.func("pptx.parts.image", "ImagePart.new")
    call = [n for n in walk_own(f.node) if isinstance(n, ast.Call) and dotted(n.func) == "cls"]
    ok = False
    if call:
        a = call[0].args
        ok = (len(a) >= 4 and isinstance(a[0], ast.Call) and (dotted(a[0].func) or "").endswith("next_image_partname")
              and a[0].args and dotted(a[0].args[0]) == "image.ext" and dotted(a[1]) == "image.content_type"
              and dotted(a[3]) == "image.blob")
    if ok:
        ctx.ok("R15.3", "ImagePart.new", sample={"partname": "next_image_partname(image.ext)", "content_type": "image.content_type", "blob": "image.blob"})
    else:
        ctx.violation("R15.3", "ImagePart.new", "new image part does not take ext / content type / blob from the Image object",
                      file=f.file, line=f.line)
    # class-level constants (tables written in the class body and never assigned on an instance) are not state of the image
    inst_stores = {t_.attr for g_ in prog.all_functions() if g_.cls is not None and img in prog.mro(g_.cls) for n_ in ast.walk(g_.node)
                   if isinstance(n_, (ast.Assign, ast.AugAssign, ast.AnnAssign)) for t_ in (n_.targets if isinstance(n_, ast.Assign) else [n_.target])
                   if isinstance(t_, ast.Attribute) and dotted(t_.value) in ("self", "cls")}
    class_consts = {k_ for c_ in prog.mro(img) for k_ in getattr(c_, "attrs", {})} - inst_stores
    for member in ("ext", "content_type", "size", "dpi", "sha1"):
        fields, calls = deps(prog, img, member)
        fields = set(fields) - class_consts
        key = "Image.%s" % member
        if fields == {"_blob"}:
            ctx.ok("R15.3", key, sample={"depends_on": sorted(fields), "via": sorted(c for c in calls if "PIL" in c or "hashlib" in c)})
        else:
            g = prog.lookup(img, member)
            ctx.violation("R15.3", key, "%s of an image depends on stored fields %s, not on the image bytes alone (e.g. the file name "
                          "rather than the detected format)" % (member, sorted(fields)), file=img.file, line=g.line if g else img.line)
    ctf = img.methods.get("content_type")
    subs = [n for n in ast.walk(ctf.node) if isinstance(n, ast.Subscript)] if ctf else []
    if any(dotted(n.value) == "image_content_types" and dotted(n.slice) == "self.ext" for n in subs):
        ctx.ok("R15.3", "Image.content_type:table", nontrivial=False)
    else:
        ctx.violation("R15.3", "Image.content_type:table", "content type is not image_content_types[self.ext]", file=img.file,
                      line=ctf.line if ctf else img.line)
    # the bytes read are the bytes stored: from_file -> from_blob -> __init__ -> self._blob without transformation
    for mod, cn, reader in (("pptx.parts.image", "Image", "from_file"), ("pptx.media", "Video", "from_path_or_file_like")):
        c = prog.cls(mod, cn)
        ff, fbm, init = c.methods.get(reader), c.methods.get("from_blob"), c.methods.get("__init__")
        if not (ff and fbm and init):
            raise AnalysisError("anchor vanished: %s.%s/from_blob/__init__" % (cn, reader))
        key = "%s.%s" % (cn, reader)
        probs = []
        p_init = stored_from_param(init, "_blob")
        if p_init is None:
            probs.append("__init__ does not store its blob parameter unchanged")
        calls = [n for n in ast.walk(fbm.node) if isinstance(n, ast.Call) and dotted(n.func) == "cls"]
        if not (calls and calls[0].args and isinstance(calls[0].args[0], ast.Name) and calls[0].args[0].id == "blob"):
            probs.append("from_blob does not pass blob unchanged to the constructor")
        ffx = _expand(prog, ff, depth=3, local_only=True, skip_names=("from_blob",))   # readers split into per-kind helpers are read in place
        fcalls = [n for n in ast.walk(ffx) if isinstance(n, ast.Call) and dotted(n.func) == "cls.from_blob"]
        if not (fcalls and fcalls[0].args and isinstance(fcalls[0].args[0], ast.Name)):
            probs.append("%s does not pass a local to from_blob" % reader)
        else:
            srcs = local_sources(ffx, fcalls[0].args[0].id)
            for _ in range(4):   # plain copies (`blob = t`) are followed to what they copy
                srcs = [y for x in srcs for y in (local_sources(ffx, x.id) if isinstance(x, ast.Name) and local_sources(ffx, x.id) else [x])]
            plain = [x for x in srcs if isinstance(x, ast.Call) and isinstance(x.func, ast.Attribute) and x.func.attr == "read"
                     and not x.args]
            if not srcs or len(plain) != len(srcs):
                probs.append("the blob handed on is not exactly what .read() returned (%s)" % [ast.unparse(x) for x in srcs if x not in plain])
        if probs:
            ctx.violation("R15.3", key, "; ".join(probs), file=ff.file, line=ff.line)
        else:
            ctx.ok("R15.3", key, sample={"flow": ".read() -> from_blob(blob) -> cls(blob) -> self._blob, no transformation"})
    # parts: blob constructor parameter stored unchanged and returned unchanged
    for mod, cn in (("pptx.parts.image", "ImagePart"), ("pptx.parts.media", "MediaPart"), ("pptx.opc.package", "Part")):
        c = prog.cls(mod, cn)
        init = prog.lookup(c, "__init__")
        key = "%s.blob" % cn
        p = stored_from_param(init, "_blob") if init else None
        bf = prog.lookup(c, "blob")
        rets = [n.value for n in ast.walk(bf.node) if isinstance(n, ast.Return)] if bf else []
        direct = bool(rets) and all(dotted(r) == "self._blob" or (isinstance(r, ast.BoolOp) and dotted(r.values[0]) == "self._blob")
                                    for r in rets)
        if p == "blob" and direct:
            ctx.ok("R15.3", key, nontrivial=False)
        else:
            ctx.violation("R15.3", key, "part does not store / return its blob unchanged (stored from %r, blob returns %s)" % (
                p, [ast.unparse(r) for r in rets]), file=c.file, line=c.line)


    # -- R15.4 -------------------------------------------------------------------------------------------
    ctx.rule("R15.4", "native size pairs (horizontal dpi, pixel width) and (vertical dpi, pixel height)")
    TUPLES = {"self._dpi": "dpi", "image.dpi": "dpi", "self._px_size": "px", "image.size": "px", "self._pil_props[1]": "px"}

    def comp_deps(fnode, tuples):
        """name -> set of (source, index) atoms, through tuple unpacking, indexing and arithmetic; returns the dependency
        sets of the elements of the returned tuple."""
        env = {}

        def deps(e):
            src = ast.unparse(e)
            if src in tuples:
                return ("tuple", tuples[src])
            if isinstance(e, ast.Subscript) and isinstance(e.slice, ast.Constant) and isinstance(e.slice.value, int):
                b = deps(e.value)
                if isinstance(b, tuple) and b[0] == "tuple":
                    return {(b[1], e.slice.value)}
                if isinstance(b, tuple) and b[0] == "elts":
                    return b[1][e.slice.value] if e.slice.value < len(b[1]) else set()
            if isinstance(e, ast.Name):
                return env.get(e.id, set())
            if isinstance(e, ast.Tuple):
                return ("elts", [deps(y) for y in e.elts])
            out = set()
            for c in ast.iter_child_nodes(e):
                if isinstance(c, ast.expr):
                    d = deps(c)
                    if isinstance(d, set):
                        out |= d
                    elif isinstance(d, tuple) and d[0] == "tuple":
                        out |= {(d[1], 0), (d[1], 1)}
                    elif isinstance(d, tuple) and d[0] == "elts":
                        for x in d[1]:
                            out |= x if isinstance(x, set) else ({(x[1], 0), (x[1], 1)} if x[0] == "tuple" else set())
            return out

        def bind(t, v):
            if isinstance(t, ast.Name):
                env[t.id] = v if isinstance(v, (set, tuple)) else set()
            elif isinstance(t, ast.Tuple):
                for i_, te in enumerate(t.elts):
                    if isinstance(v, tuple) and v[0] == "tuple":
                        bind(te, {(v[1], i_)})
                    elif isinstance(v, tuple) and v[0] == "elts" and i_ < len(v[1]):
                        bind(te, v[1][i_])
                    else:
                        bind(te, v if isinstance(v, set) else set())

        def name_val(v):
            return v

        for st in fnode.body:
            if isinstance(st, ast.Assign) and len(st.targets) == 1:
                v = deps(st.value)
                # tuple-valued right-hand side kept symbolic for names, so that x[0] / unpacking still resolve
                if isinstance(st.targets[0], ast.Name) and isinstance(v, tuple):
                    env[st.targets[0].id] = v
                else:
                    bind(st.targets[0], v)
            elif isinstance(st, ast.Return) and st.value is not None:
                r = deps(st.value)
                if isinstance(r, tuple) and r[0] == "elts":
                    return r[1]
                return None
        return None

    # names bound to tuple-valued sources must resolve through Name lookups too
    ns = prog.func("pptx.parts.image", "ImagePart._native_size")
    # allow `image = Image.from_blob(self._blob)` style locals: image.dpi / image.size are in TUPLES by text
    from sa.desugar import desugar as _ds15

    r = comp_deps(_ds15(ns.node), TUPLES)   # (canonical form: component-wise pipelines are written out per component)

    def flat(x):
        return x if isinstance(x, set) else set()

    if r is None or len(r) != 2:
        ctx.error("ImagePart._native_size", "returned (width, height) pair not recognised")
    else:
        w, h = flat(r[0]), flat(r[1])
        if w == {("dpi", 0), ("px", 0)} and h == {("dpi", 1), ("px", 1)}:
            ctx.ok("R15.4", "ImagePart._native_size", sample={"width_from": sorted(w), "height_from": sorted(h)})
        elif not w or not h:
            # nothing traced to the image's dpi / pixel size: the computation is not understood (no counter-fact)
            ctx.error("ImagePart._native_size", "the dependencies of the returned width / height on (dpi, pixel size) were not traced")
        else:
            ctx.violation("R15.4", "ImagePart._native_size", "native width depends on %s and height on %s; expected (horizontal dpi, pixel width) and "
                          "(vertical dpi, pixel height): an image with different horizontal and vertical resolution gets the wrong aspect ratio"
                          % (sorted(w), sorted(h)), file=ns.file, line=ns.line)
    # scaling with one dimension given: the other follows from the *native* aspect ratio (pixels over resolution, per axis), not from
    # the pixel counts alone
    sc = prog.lookup(prog.cls("pptx.parts.image", "ImagePart"), "scale")
    if sc is None:
        raise AnalysisError("anchor vanished: ImagePart.scale")
    from sa.inline import expand as _exp15s

    scx = _exp15s(prog, sc, local_only=True, skip_names=("_native_size", "_px_size", "_dpi"))
    SRC = {"self._native_size": "native", "self._px_size": "px", "self._dpi": "dpi"}
    env_s = {}

    def sdeps(e):
        if isinstance(e, ast.Name):
            return set(env_s.get(e.id, set()))
        txt = ast.unparse(e)
        if txt in SRC:
            return {(SRC[txt], 0), (SRC[txt], 1)}
        if isinstance(e, ast.Subscript) and ast.unparse(e.value) in SRC and isinstance(e.slice, ast.Constant):
            return {(SRC[ast.unparse(e.value)], e.slice.value)}
        out = set()
        for c_ in ast.iter_child_nodes(e):
            if isinstance(c_, ast.expr):
                out |= sdeps(c_)
        return out

    for _round in range(3):   # flow-insensitive closure over the assignments (names may be bound in any arm)
        for st in ast.walk(scx):
            if isinstance(st, ast.Assign) and len(st.targets) == 1:
                t, v = st.targets[0], st.value
                if isinstance(t, ast.Tuple) and ast.unparse(v) in SRC:
                    for i_, te in enumerate(t.elts):
                        if isinstance(te, ast.Name):
                            env_s.setdefault(te.id, set()).add((SRC[ast.unparse(v)], i_))
                elif isinstance(t, ast.Tuple) and isinstance(v, ast.Tuple) and len(t.elts) == len(v.elts):
                    for te, ve in zip(t.elts, v.elts):
                        if isinstance(te, ast.Name):
                            env_s.setdefault(te.id, set()).update(sdeps(ve))
                elif isinstance(t, ast.Name):
                    env_s.setdefault(t.id, set()).update(sdeps(v))
    used, kinds, bad_px = set(), set(), False
    for r_ in [x for x in ast.walk(scx) if isinstance(x, ast.Return) and x.value is not None]:
        # each returned dimension that is computed (not a parameter handed back, not the native size as a whole)
        elts_ = r_.value.elts if isinstance(r_.value, ast.Tuple) else [r_.value]
        for e_ in elts_:
            d_ = sdeps(e_)
            if not d_:
                continue
            used |= d_
            k_ = {k for k, _ in d_}
            kinds |= k_
            if k_ == {"px"}:
                bad_px = True
    if not bad_px and ("native" in kinds or {"px", "dpi"} <= kinds):
        ctx.ok("R15.4", "ImagePart.scale", sample={"missing_dimension_from": sorted(kinds)})
    elif bad_px:
        ctx.violation("R15.4", "ImagePart.scale", "the missing dimension is derived from the pixel counts alone (%s): for an image whose horizontal and "
                      "vertical resolution differ the native size honours both, but a picture given only its width (or height) gets the aspect "
                      "ratio of the pixel grid" % sorted(used), file=sc.file, line=sc.line)
    else:
        ctx.error("ImagePart.scale", "what the scaled size is derived from was not traced (%s)" % sorted(used))
    # Image.dpi: component k of the normalised dpi comes from component k of Pillow's dpi
    dp = img.methods.get("dpi")
    if dp is None:
        raise AnalysisError("anchor vanished: Image.dpi")
    from sa import paths as P_
    from sa.inline import expand as _expand

    dx = _expand(prog, dp, depth=3)   # nested / extracted normalisation helpers read in place
    dval = P_.value_aliases(dx)
    assigns = {}
    for n in walk_own(dx):
        if isinstance(n, ast.Assign):
            for t in n.targets:
                if isinstance(t, ast.Name):
                    assigns.setdefault(t.id, []).append(n.value)

    def is_pil(e):
        return P_.full(e, dval) == "self._pil_props[2]"

    def flow(e, seen):
        """indexes k such that pil_dpi[k] flows into e (backward over every assignment of the names e mentions)"""
        out = set()
        for x in ast.walk(e):
            if isinstance(x, ast.Subscript) and isinstance(x.slice, ast.Constant) and isinstance(x.slice.value, int) and is_pil(x.value):
                out.add(x.slice.value)
            elif isinstance(x, ast.Name) and x.id not in seen:
                seen.add(x.id)
                for v in assigns.get(x.id, []):
                    if not is_pil(v):
                        out |= flow(v, seen)
        return out

    tuples_ = [n.value for n in walk_own(dx) if isinstance(n, ast.Return) and isinstance(n.value, ast.Tuple) and len(n.value.elts) == 2
               and not all(isinstance(prog.const(e, dp.module), int) for e in n.value.elts)]
    good = None
    if tuples_:
        good = all(flow(t.elts[0], set()) == {0} and flow(t.elts[1], set()) == {1} for t in tuples_)
    if good is None:
        ctx.error("Image.dpi", "the returned (horz, vert) pair computed from Pillow's dpi is not recognised")
    elif good:
        ctx.ok("R15.4", "Image.dpi", sample={"horz": "pil_dpi[0]", "vert": "pil_dpi[1]"})
    else:
        ctx.violation("R15.4", "Image.dpi", "normalised (horz, vert) dpi is not taken component-wise from Pillow's dpi", file=img.file,
                      line=dp.line if dp else img.line)

    # -- R15.5 -------------------------------------------------------------------------------------------
    ctx.rule("R15.5", "a caller's image stream is rewound before it is read")
    _r155(ctx, prog)


def _r155(ctx, prog):
    """Image.from_file: every `.read()` of the caller's file-like object is preceded, on the same path, by `.seek(0)` on it (or the
    path has established that the object has no callable `seek`).  A stream that was just written, inspected, or already used for
    an earlier picture is positioned past its start: without the rewind the stored bytes are not the image (they are empty), and
    the SHA1 that identifies "the same image" is that of the remainder."""
    from sa import paths as P_
    from sa.inline import expand

    img = prog.cls("pptx.parts.image", "Image")
    ff = img.methods.get("from_file") if img else None
    if ff is None:
        raise AnalysisError("anchor vanished: Image.from_file")
    fx = expand(prog, ff, depth=3, local_only=True)
    al = P_.value_aliases(fx)
    param = [a.arg for a in ff.node.args.args if a.arg not in ("self", "cls")][0]

    def is_param(e):
        for _ in range(6):
            if isinstance(e, ast.Name) and e.id != param and e.id in al and isinstance(al[e.id], ast.Name):
                e = al[e.id]
            else:
                break
        return isinstance(e, ast.Name) and e.id == param

    def walk_events(pth):
        """(kind, node) in execution order: statements of the path, `with` headers and conditions"""
        for ev in pth.events:
            if ev[0] in ("stmt", "with", "cond"):
                yield ev
        if pth.end_node is not None:
            yield ("stmt", pth.end_node)

    n_reads, bad = 0, []
    for pth in P_.enum_paths(fx.body):
        if pth.end == "raise" or not P_.feasible(pth):
            continue
        rewound = False
        no_seek = any(a[0] == "truthy" and a[2] is False and "seek" in a[1] and param in a[1] for a in P_.facts(pth))
        for ev in walk_events(pth):
            node = ev[1].items[0].context_expr if ev[0] == "with" else ev[1]
            for c in [x for x in ast.walk(node) if isinstance(x, ast.Call) and isinstance(x.func, ast.Attribute)]:
                if c.func.attr == "seek" and is_param(c.func.value) and c.args and isinstance(c.args[0], ast.Constant) and c.args[0].value == 0:
                    rewound = True
                elif c.func.attr in ("read", "getvalue", "readall") and is_param(c.func.value):
                    if c.func.attr == "getvalue":
                        continue   # the whole buffer whatever the position
                    n_reads += 1
                    if not (rewound or no_seek):
                        bad.append(c.lineno)
                    rewound = False
    if n_reads == 0:
        ctx.error("Image.from_file", "no read of the caller's file-like object found")
    elif bad:
        ctx.violation("R15.5", "Image.from_file", "the caller's stream `%s` is read (line %d) without `%s.seek(0)` before it on that path: a stream "
                      "positioned past its start (reused for a second picture, just written) yields the remainder, not the image" % (param, bad[0], param),
                      file=ff.file, line=bad[0])
    else:
        ctx.ok("R15.5", "Image.from_file", sample={"stream": param, "rewound": "seek(0) precedes read() on every path that reads the stream"})
