"""C02 — every saved file is a closed, self-consistent package (decidable clauses).

Rules
  R2.1  memoisation soundness: no lazyproperty caches a value derived from a field that can be reassigned later
  R2.2  rId provenance: every value written into an r:* attribute (attribute stores and template holes) is produced by
        the relationship machinery (generated "rId%d" or an existing xsd:ID of a relationship), never a caller string
  R2.3  part construction discipline: every part constructed outside the loader takes its part name from an allocator
        (or a guarded singleton name) and is related to a source on every path
  R2.4  drop_rel pairing: each drop_rel(rId) site also removes the element/attribute the rId came from, and does so after
        drop_rel has counted the references (XmlPart.drop_rel keeps a relationship that has two or more references,
        counting the one being removed); the counting rule itself is checked (`_rel_ref_count(rId) < 2`)
  R2.5  content-type <-> part-class registry: the content type a part class is constructed with maps back to that class
  R2.7  content types: Default/Override decision is total, conflict-free and inverted by the reader (shared with C01 R1.1)
  R2.6  writer closure: content types and members are produced from the same part sequence; rels items are written for
        every part that has relationships; package rels are written
"""

from __future__ import annotations

import ast

from sa.pysrc import ClassInfo, Unknown, dotted
from sa.provenance import Prov
from sa.report import AnalysisError
from sa.strabs import S as AS
from sa.templates import sinks
from sa.types import FCtx, Types, walk_own
from sa.xmlskel import skeleton

REL_NS = "http://schemas.openxmlformats.org/officeDocument/2006/relationships"
ALLOCATORS = {"next_partname", "next_image_partname", "next_media_partname", "_next_slide_partname"}


def run(ctx):
    from checks.c10 import load

    prog, S, M = load(ctx.repo)

    from sa.xmlchemy_model import ALL_PARTS, mechanism_gate  # noqa: F401


    mechanism_gate(ctx, M, ("attr",))
    T = Types(prog, M)
    ctx.level = "other"
    ctx.trusted = ["CPython ast", "typed resolution of engine A", "lazyproperty semantics: the getter runs once per object"]
    ctx.explanation = (
        "Structural necessary conditions of package consistency: cached (lazyproperty) values must not depend on fields that "
        "are reassigned after construction; relationship ids written into XML must originate in the relationship machinery; new "
        "parts must be named by an allocator and related to a source; dropping a relationship must be paired with removing its "
        "reference; the content-type table must map each constructed part back to its class; the writer must derive content "
        "types and members from one part sequence.")
    ctx.not_decided = ["closure of the part graph under arbitrary API histories", "reference counting of r:embed/r:link in drop_rel",
                       "equality of re-opened content"]
    for m in ("pptx.opc.package", "pptx.opc.serialized", "pptx.package", "pptx.parts.presentation"):
        if m in prog.modules:
            ctx.note_file(prog.modules[m].path)

    _r21(ctx, prog, M, T)
    _r22(ctx, prog, S, M, T)
    _r23(ctx, prog, M, T)
    _r24(ctx, prog, M, T)
    _r25(ctx, prog, M, T)
    _r26(ctx, prog, M, T)
    _r28(ctx, prog, M, T)
    # R2.7: every part keeps exactly one resolvable content type (the Default/Override decision and its inverse lookup)
    from checks.c01 import content_type_rules

    ctx.rule("R2.7", "every part gets exactly one content-type declaration, its own, and the reader resolves it back")
    content_type_rules(ctx, prog, prog.modules["pptx.opc.serialized"], prog.modules["pptx.opc.package"], prog.modules["pptx.opc.spec"],
                       prog.modules["pptx.opc.oxml"], "R2.7")


# -- R2.1 ---------------------------------------------------------------------------------------------
def mutable_fields(prog, T):
    """{(ClassInfo, field): [(FuncInfo, line, receiver classes or None)]}: fields stored after construction by
    `self.<f> = <non-None>` in a non-constructor method.  For a property setter the receiver classes are those of its
    store sites `X.<prop> = ...` (None when some receiver is untyped); an unused setter does not count."""
    out = {}
    for c in prog.all_classes():
        if c.module.name == "pptx.oxml.xmlchemy":
            continue  # declaration descriptors are configured once at class-creation time (not document state)
        for f in list(c.methods.values()) + list(c.setters.values()):
            if f.name in ("__init__", "__new__"):
                continue
            stores = []
            for n in walk_own(f.node):
                if isinstance(n, (ast.Assign, ast.AugAssign)):
                    tg = n.targets if isinstance(n, ast.Assign) else [n.target]
                    if isinstance(n, ast.Assign) and isinstance(n.value, ast.Constant) and n.value.value is None:
                        continue  # invalidation (object unusable afterwards), not a new value
                    for t in tg:
                        for tt in (t.elts if isinstance(t, ast.Tuple) else [t]):
                            if isinstance(tt, ast.Attribute) and isinstance(tt.value, ast.Name) and tt.value.id == "self":
                                stores.append((tt.attr, n.lineno))
                            # item store into a collection field: self.F[k] = v
                            if isinstance(tt, ast.Subscript) and isinstance(tt.value, ast.Attribute) and isinstance(tt.value.value, ast.Name) \
                                    and tt.value.value.id == "self":
                                stores.append((tt.value.attr, n.lineno))
                # in-place growth / shrinkage of a collection field: self.F.append(x) ... (the field keeps its identity, its content
                # changes: a value memoised from it goes stale just the same)
                if isinstance(n, ast.Call) and isinstance(n.func, ast.Attribute) and n.func.attr in (
                        "append", "extend", "insert", "pop", "remove", "clear", "update", "add", "discard", "setdefault", "sort", "reverse") \
                        and isinstance(n.func.value, ast.Attribute) and isinstance(n.func.value.value, ast.Name) and n.func.value.value.id == "self" \
                        and n.func.value.attr.startswith("_") and _is_container_field(prog, c, n.func.value.attr):
                    stores.append((n.func.value.attr, n.lineno))
            if not stores:
                continue
            if f.kind == "setter":
                recv = setter_receivers(prog, T, c, f)
                if recv == []:
                    continue
            else:
                recv = [c]
            for name, ln in stores:
                out.setdefault((c, name), []).append((f, ln, recv))
    return out


def _is_container_field(prog, c, field):
    """the field is created in a constructor of the class (or a base) as a Python list / dict / set (not an XML element)"""
    for k in prog.mro(c):
        init = getattr(k, "methods", {}).get("__init__")
        for n in ast.walk(init.node) if init is not None else []:
            if isinstance(n, ast.Assign) and any(isinstance(t, ast.Attribute) and t.attr == field and dotted(t.value) == "self" for t in n.targets):
                v = n.value
                if isinstance(v, (ast.List, ast.Dict, ast.Set, ast.ListComp, ast.DictComp, ast.SetComp)):
                    return True
                if isinstance(v, ast.Call) and (dotted(v.func) or "").split(".")[-1] in ("list", "dict", "set", "OrderedDict", "defaultdict", "deque"):
                    return True
    return False


def setter_receivers(prog, T, c, f):
    """Classes of the receivers of `X.<prop> = ...` store sites for setter f of class c: [] = never used, None = some
    receiver is untyped (any instance)."""
    out = []
    for g in prog.all_functions():
        fc = None
        for n in walk_own(g.node):
            if isinstance(n, ast.Assign):
                for t in n.targets:
                    if isinstance(t, ast.Attribute) and t.attr == f.name:
                        fc = fc or FCtx(g)
                        bt = T.expr(t.value, fc)
                        insts = [a[1] for a in bt if a[0] == "inst"]
                        if not insts:
                            if isinstance(t.value, ast.Name) and t.value.id == "self" and g.cls is not None:
                                insts = [g.cls]
                            else:
                                return None
                        for k in insts:
                            if c in prog.mro(k) or k in prog.mro(c):
                                out.append(k)
    return out


def transient_class(prog, T, c):
    """Every construction of c is consumed immediately (`c(...).x`): its objects do not outlive one call."""
    n = 0
    for g in prog.all_functions():
        fc = FCtx(g)
        parents = {}
        for node in ast.walk(g.node):
            for ch in ast.iter_child_nodes(node):
                parents[id(ch)] = node
        for node in ast.walk(g.node):
            if isinstance(node, ast.Call):
                ft = T.expr(node.func, fc)
                hit = any(a[0] == "class" and a[1] is c for a in ft) or (
                    isinstance(node.func, ast.Name) and node.func.id == "cls" and g.cls is c)
                if hit:
                    n += 1
                    par = parents.get(id(node))
                    if not (isinstance(par, ast.Attribute) and par.value is node):
                        return False
    return n > 0


def reads(prog, T, f, cls, depth=0, seen=None):
    """Fields {(declaring-or-receiver ClassInfo, name)} a getter reads on its receiver, transitively through properties."""
    seen = seen if seen is not None else set()
    key = (f, cls)
    if key in seen or depth > 6:
        return set()
    seen.add(key)
    out = set()
    fc = FCtx(f, cls)
    for n in walk_own(f.node):
        if isinstance(n, ast.Attribute) and isinstance(n.ctx, ast.Load):
            if isinstance(n.value, ast.Name) and n.value.id == "self":
                g = prog.lookup(cls, n.attr)
                if g is not None and g.kind in ("property", "lazyproperty"):
                    out |= reads(prog, T, g, cls, depth + 1, seen)
                elif g is None:
                    out.add((cls, n.attr))
            else:
                bt = T.expr(n.value, fc)
                for a in bt:
                    if a[0] == "inst":
                        g = prog.lookup(a[1], n.attr)
                        if g is not None and g.kind in ("property", "lazyproperty"):
                            out |= reads(prog, T, g, a[1], depth + 1, seen)
                        elif g is None and not a[1].name.startswith("CT_"):
                            out.add((a[1], n.attr))
    return out


def self_escapes(prog, f, cls, depth=0, seen=None):
    """The getter hands its receiver as a whole to a constructor / function (`Writer(self)`), directly or in a property of the receiver
    it reads: what it computes may then depend on any field of the receiver.  Returns the call text or None."""
    seen = seen if seen is not None else set()
    if (f, cls) in seen or depth > 4:
        return None
    seen.add((f, cls))
    for n in walk_own(f.node):
        if isinstance(n, ast.Call) and any(isinstance(a, ast.Name) and a.id == "self" for a in list(n.args) + [k.value for k in n.keywords]):
            return ast.unparse(n)[:60]
        if isinstance(n, ast.Attribute) and isinstance(n.ctx, ast.Load) and isinstance(n.value, ast.Name) and n.value.id == "self":
            g = prog.lookup(cls, n.attr)
            if g is not None and g.kind in ("property", "lazyproperty") and g is not f:
                r = self_escapes(prog, g, cls, depth + 1, seen)
                if r:
                    return r
    return None


def _snapshot_of_document(prog, M, T, g):
    """A lazyproperty that materialises a collection (tuple/list/dict/set/comprehension) by iterating document content - the
    XML tree, or a proxy collection over it - takes a snapshot that later edits of the document do not reach.
    Returns a description of the iterated source, or None."""
    fc = FCtx(g, g.cls)
    for n in walk_own(g.node):
        if not (isinstance(n, ast.Return) and n.value is not None):
            continue
        v = n.value
        if isinstance(v, ast.Call) and dotted(v.func) in ("tuple", "list", "dict", "set", "sorted", "frozenset") and v.args:
            v = v.args[0]
        if not isinstance(v, (ast.ListComp, ast.GeneratorExp, ast.DictComp, ast.SetComp)):
            continue
        for gen in v.generators:
            it = gen.iter
            t = T.expr(it, fc)
            for a in t:
                if a[0] == "lxml" or (a[0] == "inst" and M.is_oxml_class(a[1])):
                    return "`%s` (XML elements)" % ast.unparse(it)
                if a[0] == "list":
                    inner = a[1] if len(a) > 1 else ()
                    if any(b[0] == "lxml" or (b[0] == "inst" and M.is_oxml_class(b[1])) for b in (inner or ())):
                        return "`%s` (list of XML elements)" % ast.unparse(it)
                if a[0] == "inst":
                    c = a[1]
                    # proxy collection: a class of the package that holds an element and iterates it
                    if c.module.name.startswith("pptx.") and not c.module.name.startswith(("pptx.opc.serialized", "pptx.text.fonts")) \
                            and prog.lookup(c, "__iter__") is not None \
                            and any(k.name in ("ParentedElementProxy", "ElementProxy", "_BaseShapes", "Subshape") for k in prog.mro(c) if hasattr(k, "name")):
                        return "`%s` (%s, a live view of the XML)" % (ast.unparse(it), c.name)
    return None


def _r21(ctx, prog, M, T):
    ctx.rule("R2.1", "no lazyproperty memoises a value derived from a field that is reassigned after construction")
    used = mutable_fields(prog, T)
    lazies = [f for f in prog.all_functions() if f.kind == "lazyproperty" and f.cls is not None
              and f.module.name != "pptx.oxml.xmlchemy"]
    ctx.count("lazyproperties", len(lazies))
    ctx.count("mutable_fields", len(used))

    def is_mut(rc, name):
        hits = []
        for (c, n2), sites in used.items():
            if n2 != name or not (c in prog.mro(rc) or rc in prog.mro(c)):
                continue
            live = []
            for f, ln, recv in sites:
                if recv is None or any(rc in prog.mro(k) or k in prog.mro(rc) for k in recv):
                    live.append((f, ln))
            if live:
                hits.append(((c, n2), live))
        return hits

    transient = {}
    for g in sorted(lazies, key=lambda x: x.fq):
        key = g.qualname
        snap = _snapshot_of_document(prog, M, T, g)
        if snap is not None:
            ctx.violation("R2.1", key + ":snapshot", "lazyproperty memoises a collection built by iterating %s: later changes of the "
                          "document are not reflected (stale members, missing new ones)" % snap, file=g.file, line=g.line)
            continue
        rs = reads(prog, T, g, g.cls)
        bad = []
        for rc, name in sorted(rs, key=lambda x: (x[0].name, x[1])):
            # the field the memo itself lives in is not a dependency
            for (c, n2), sites in is_mut(rc, name):
                # a store inside the same lazy getter is initialisation, not reassignment
                sites = [(f, ln) for f, ln in sites if f is not g]
                if sites:
                    bad.append((c, n2, sites))
        # a *value* (not a live object) computed from the receiver as a whole depends on every field of the receiver
        rt0 = T.ret(g, g.cls)
        valueish = (not rt0) or any(a[0] in ("prim", "tuple", "list") for a in rt0)
        esc = None
        if valueish and not any(a[0] == "inst" for a in (rt0 or ())):
            # hooks the getter reads may be overridden: the receiver is any class that inherits the getter
            for k_ in [g.cls] + sorted((k for k in prog.all_classes() if k is not g.cls and g.cls in prog.mro(k) and prog.lookup(k, g.name) is g),
                                       key=lambda k: k.fq):
                esc = self_escapes(prog, g, k_)
                if esc:
                    break
        if esc and not bad:
            for (c, n2), sites in used.items():
                if c in prog.mro(g.cls) or g.cls in prog.mro(c):
                    live = [(f, ln) for f, ln, recv in sites if f is not g and f.name != "__init__" and (
                        recv is None or any(g.cls in prog.mro(k) or k in prog.mro(g.cls) for k in recv))]
                    if live:
                        bad.append((c, n2, live))
        if bad and g.cls not in transient:
            transient[g.cls] = transient_class(prog, T, g.cls)
        if bad and transient.get(g.cls):
            ctx.ok("R2.1", key, sample={"lazyproperty": g.fq, "note": "objects of %s never outlive the call that creates them" % g.cls.name})
            continue
        if not bad:
            ctx.ok("R2.1", key, nontrivial=bool(rs), sample={"lazyproperty": g.fq, "reads": sorted("%s.%s" % (a.name, b) for a, b in rs)[:6]}
                   if rs else None)
            continue
        # derived value or live object?
        rt = T.ret(g, g.cls)
        derived = (not rt) or any(a[0] in ("prim", "tuple", "list") for a in rt) or any(
            a[0] == "inst" and any(b in ("str", "int", "tuple") for b in prog.ext_bases(a[1])) for a in rt)
        frozen_ctor = False
        for n in walk_own(g.node):
            if isinstance(n, ast.Return) and isinstance(n.value, ast.Call):
                ct = T.expr(n.value.func, FCtx(g))
                if ct and all(a[0] == "class" for a in ct) and n.value.args:
                    frozen_ctor = True
        c, n2, sites = bad[0]
        where = ", ".join("%s:%d" % (f.qualname, ln) for f, ln in sites[:3])
        if derived or frozen_ctor:
            ctx.violation("R2.1", key, "memoised %s depends on %s.%s, which is reassigned by %s: the cached value goes stale" % (
                "value" if derived else "object built from a value", c.name, n2, where), file=g.file, line=g.line,
                witness="reads %s" % sorted("%s.%s" % (a.name, b) for a, b in rs)[:6])
        else:
            ctx.ok("R2.1", key, sample={"lazyproperty": g.fq, "returns": "live object", "mutable_dependency": "%s.%s" % (c.name, n2)})


# -- R2.2 ---------------------------------------------------------------------------------------------
def _r22(ctx, prog, S, M, T):
    ctx.rule("R2.2", "values written into r:id / r:embed / r:link / r:pict attributes originate in the relationship machinery")
    prov = Prov(prog, M, T)
    nsites = 0

    def judge(expr, fc, key, file, line):
        nonlocal nsites
        nsites += 1
        orig = prov.origin(expr, fc)
        labels = {o[0] for o in orig}
        bad = labels & {"USER", "FILE", "UNKNOWN", "DOC"}
        if bad == {"UNKNOWN"}:
            # the value could not be traced (an unresolved call): an analysis gap, no foreign source was shown to reach the attribute
            wit = [" <- ".join(ch[-3:]) for lab, ch in orig if lab in bad][:1]
            ctx.error(key, "the origin of the relationship id was not traced (%s)" % wit)
        elif bad:
            wit = [" <- ".join(ch[-3:]) for lab, ch in orig if lab in bad][:1]
            ctx.violation("R2.2", key, "relationship-id attribute is filled from %s (%s)" % (sorted(bad), wit), file=file, line=line)
        else:
            ctx.ok("R2.2", key, sample={"site": "%s:%s" % (file, line), "labels": sorted(labels)})

    # attribute stores X.<prop> = v where prop is an r:* attribute declaration
    rprops = {}
    for c in M.oxml_classes():
        for d in M.own_decls(c)[1]:
            if d.attr.startswith("r:"):
                rprops.setdefault(d.prop, []).append((c, d))
    for f in prog.all_functions():
        if f.module.name == "pptx.oxml.xmlchemy":
            continue
        fc = FCtx(f)
        for n in walk_own(f.node):
            if isinstance(n, ast.Assign):
                for t in n.targets:
                    if isinstance(t, ast.Attribute) and t.attr in rprops:
                        bt = T.expr(t.value, fc)
                        owners = [a[1] for a in bt if a[0] == "inst"]
                        if owners and not any(any(c in prog.mro(o) for c, _ in rprops[t.attr]) for o in owners):
                            continue
                        if isinstance(n.value, ast.Constant) and n.value.value is None:
                            continue
                        judge(n.value, fc, "%s:%s=%s" % (f.qualname, ast.unparse(t), ast.unparse(n.value)[:30]), f.file, n.lineno)
            elif isinstance(n, ast.Call) and isinstance(n.func, ast.Attribute) and n.func.attr.startswith("_add_") and n.keywords:
                for kw in n.keywords:
                    if kw.arg in rprops:
                        judge(kw.value, fc, "%s:%s(%s=)" % (f.qualname, n.func.attr, kw.arg), f.file, n.lineno)
    # template holes in r:* attribute positions
    sk, unknown, _ = sinks(prog, T)
    seen = set()
    for s in sk:
        if not isinstance(s.value, AS):
            continue
        try:
            k = skeleton(s.value, prog.nsmap)
        except AnalysisError:
            continue
        for mk in k.markers:
            if mk.hole is None or mk.attr is None or not mk.attr.startswith("{%s}" % REL_NS):
                continue
            h = mk.hole
            hk = (h.fc.fn, h.src, mk.attr)
            if hk in seen:
                continue
            seen.add(hk)
            judge(h.expr, h.fc, "%s:%s@%s" % (h.fc.fn.qualname, h.src, mk.attr.split("}")[1]), h.fc.fn.file,
                  getattr(h.expr, "lineno", 0))
    ctx.count("rid_write_sites", nsites)


# -- R2.3 ---------------------------------------------------------------------------------------------
def _part_classes(prog):
    base = prog.cls("pptx.opc.package", "Part")
    return [c for c in prog.all_classes() if base in prog.mro(c)]


def _r23(ctx, prog, M, T):
    ctx.rule("R2.3", "parts constructed outside the loader are named by an allocator (or a guarded singleton) and related")
    pcs = set(_part_classes(prog))
    nsites = 0
    for f in prog.all_functions():
        if f.module.name == "pptx.opc.package" and (f.cls is None or f.cls.name in ("_PackageLoader", "PartFactory", "Part", "XmlPart")):
            continue
        fc = FCtx(f)
        for n in walk_own(f.node):
            if not isinstance(n, ast.Call):
                continue
            ft = T.expr(n.func, fc)
            cands = [a[1] for a in ft if a[0] == "class" and a[1] in pcs]
            is_ctor = bool(cands)
            is_load = isinstance(n.func, ast.Attribute) and n.func.attr == "load" and any(
                a[0] == "class" and a[1] in pcs for a in T.expr(n.func.value, fc))
            if not (is_ctor or is_load):
                continue
            if f.name == "load" and f.cls in pcs:
                continue  # the loader's per-class hook
            nsites += 1
            key = "%s@%d" % (f.qualname, n.lineno)
            pn = n.args[0] if n.args else None
            for kw in n.keywords:
                if kw.arg == "partname":
                    pn = kw.value
            how = _partname_source(prog, T, f, fc, pn)
            if how is None:
                ctx.violation("R2.3", key + ":partname", "part is constructed with a part name that does not come from an allocator "
                              "(%s)" % (ast.unparse(pn) if pn is not None else "?"), file=f.file, line=n.lineno)
                continue
            related = _flows_to_relate(prog, T, f, n)
            if not related:
                ctx.violation("R2.3", key + ":unrelated", "the new part does not reach relate_to() in this function or in its callers",
                              file=f.file, line=n.lineno)
                continue
            ctx.ok("R2.3", key, sample={"site": "%s:%d" % (f.file, n.lineno), "partname": how, "related": related})
    ctx.count("part_construction_sites", nsites)


_CALLERS = {}


def typed_callers(prog, T, f):
    """[(caller FuncInfo, call node)] for calls that can reach f (typed resolution; untyped receivers are kept)."""
    key = f
    if key in _CALLERS:
        return _CALLERS[key]
    out = []
    for g in prog.all_functions():
        if g is f:
            continue
        gfc = None
        for c in walk_own(g.node):
            if isinstance(c, ast.Call) and ((isinstance(c.func, ast.Attribute) and c.func.attr == f.name) or
                                            (isinstance(c.func, ast.Name) and c.func.id == f.name)):
                gfc = gfc or FCtx(g)
                cal = [x for x, _ in T.callees(c, gfc)]
                if cal:
                    if f in cal or any(getattr(x, "name", None) == f.name and getattr(x, "cls", None) is not None
                                       and f.cls is not None and (x.cls in prog.mro(f.cls) or f.cls in prog.mro(x.cls))
                                       for x in cal):
                        out.append((g, c))
                    continue
                if isinstance(c.func, ast.Attribute):
                    rt = T.expr(c.func.value, gfc)
                    if rt and not any(a[0] in ("class", "inst") and f.cls is not None and (
                            a[1] in prog.mro(f.cls) or f.cls in prog.mro(a[1])) for a in rt):
                        continue
                # untyped receiver: keep only arity-compatible calls
                ps = f.params[1:] if f.cls is not None and f.kind != "staticmethod" else f.params
                ndef = len(f.node.args.defaults)
                nargs = len(c.args) + len(c.keywords)
                if not (len(ps) - ndef <= nargs <= len(ps)) and not f.node.args.vararg and not f.node.args.kwarg:
                    continue
                out.append((g, c))
    _CALLERS[key] = out
    return out


def _partname_source(prog, T, f, fc, pn, depth=0):
    if pn is None or depth > 3:
        return None
    if isinstance(pn, ast.Call):
        d = dotted(pn.func) or ""
        last = d.split(".")[-1]
        if last in ALLOCATORS:
            return "allocator %s" % last
        if last == "PackURI" and pn.args:
            v = prog.const(pn.args[0], f.module)
            if isinstance(v, str):
                # singleton name: must be dominated by an absence test in a caller (checked loosely: recorded)
                return "singleton %s" % v
            return _partname_source(prog, T, f, fc, pn.args[0], depth + 1)
    if isinstance(pn, ast.Attribute) and pn.attr in ALLOCATORS:
        return "allocator %s" % pn.attr
    if isinstance(pn, ast.IfExp):
        a_, b_ = _partname_source(prog, T, f, fc, pn.body, depth + 1), _partname_source(prog, T, f, fc, pn.orelse, depth + 1)
        return "%s | %s" % (a_, b_) if a_ and b_ else None
    if isinstance(pn, ast.Name):
        # local whose EVERY binding comes from an allocator, or a parameter whose every caller passes an allocator result
        binds = [n.value for n in walk_own(f.node) if isinstance(n, ast.Assign) and any(isinstance(t, ast.Name) and t.id == pn.id for t in n.targets)]
        if binds:
            rs = [_partname_source(prog, T, f, fc, v, depth + 1) for v in binds]
            return " | ".join(sorted(set(rs))) if all(rs) else None
        if pn.id in f.params:
            ps = f.params[1:] if f.cls is not None and f.kind != "staticmethod" else f.params
            srcs = []
            for g, c in typed_callers(prog, T, f):
                if pn.id in ps and ps.index(pn.id) < len(c.args):
                    srcs.append(_partname_source(prog, T, g, FCtx(g), c.args[ps.index(pn.id)], depth + 1))
            if srcs and all(srcs):
                return "parameter <- " + ", ".join(sorted(set(srcs)))
    return None


def _flows_to_relate(prog, T, f, call, depth=0):
    """The constructed part is an argument of relate_to (here), or is returned and every caller relates it."""
    if depth > 3:
        return None
    var = None
    for n in walk_own(f.node):
        if isinstance(n, ast.Assign) and n.value is call and isinstance(n.targets[0], ast.Name):
            var = n.targets[0].id
        if isinstance(n, ast.Call) and isinstance(n.func, ast.Attribute) and n.func.attr in ("relate_to", "load_rel"):
            if any(a is call for a in n.args):
                return "relate_to in %s" % f.qualname
    returned = False
    for n in walk_own(f.node):
        if isinstance(n, ast.Assign) and n.value is call and isinstance(n.targets[0], ast.Attribute) and f.cls is not None:
            st = prog.lookup_setter(f.cls, n.targets[0].attr) if dotted(n.targets[0].value) == "self" else None
            if st is not None and any(isinstance(x, ast.Call) and isinstance(x.func, ast.Attribute) and x.func.attr == "relate_to"
                                      and any(isinstance(a, ast.Name) and a.id == st.params[1] for a in x.args)
                                      for x in walk_own(st.node)):
                return "relate_to in setter %s" % st.qualname
        if isinstance(n, ast.Call) and isinstance(n.func, ast.Attribute) and n.func.attr == "relate_to" and var:
            if any(isinstance(a, ast.Name) and a.id == var for a in n.args):
                return "relate_to in %s" % f.qualname
        if isinstance(n, ast.Return) and n.value is not None:
            if n.value is call or (var and isinstance(n.value, ast.Name) and n.value.id == var) or (
                    var and isinstance(n.value, ast.IfExp) and any(isinstance(x, ast.Name) and x.id == var for x in ast.walk(n.value))) \
                    or any(x is call for x in ast.walk(n.value)):
                returned = True
    if not returned:
        return None
    # callers (typed resolution)
    outs = []
    for g, c in typed_callers(prog, T, f):
        outs.append(_flows_to_relate(prog, T, g, c, depth + 1))
    if outs and all(outs):
        return "returned; related by callers: " + "; ".join(sorted(set(outs)))[:120]
    return None


# -- R2.4 ---------------------------------------------------------------------------------------------
def _r24(ctx, prog, M, T):
    ctx.rule("R2.4", "each drop_rel(rId) site removes the element or attribute that carried the rId")
    n = 0
    for f in prog.all_functions():
        if f.name == "drop_rel":
            continue
        for c in walk_own(f.node):
            if isinstance(c, ast.Call) and isinstance(c.func, ast.Attribute) and c.func.attr == "drop_rel" and c.args:
                n += 1
                key = "%s@%d" % (f.qualname, c.lineno)
                src = ast.unparse(f.node)
                removes = [x for x in walk_own(f.node) if isinstance(x, ast.Call) and isinstance(x.func, ast.Attribute)
                           and (x.func.attr in ("remove", "_remove_hlinkClick", "_remove_hlinkHover") or x.func.attr.startswith("_remove_"))]
                early = [x for x in removes if (x.lineno, x.col_offset) < (c.lineno, c.col_offset)]
                if removes and early:
                    # XmlPart.drop_rel pops the relationship only when fewer than two references remain *including the one
                    # being removed*: the reference must still be in the XML when drop_rel counts
                    ctx.violation("R2.4", key + ":order", "the referencing element is removed (`%s`, line %d) before drop_rel() counts "
                                  "the references: a relationship shared with one other reference is dropped and that reference is "
                                  "left dangling" % (ast.unparse(early[0])[:50], early[0].lineno), file=f.file, line=c.lineno)
                elif removes:
                    ctx.ok("R2.4", key, sample={"site": "%s:%d" % (f.file, c.lineno), "removal": ast.unparse(removes[0])[:60],
                                                "order": "drop_rel first, then remove the reference"})
                else:
                    ctx.violation("R2.4", key, "relationship is dropped but the referencing element/attribute is not removed in this "
                                  "function", file=f.file, line=c.lineno)
    ctx.count("drop_rel_sites", n)
    xp = prog.cls("pptx.opc.package", "XmlPart")
    dr = xp.methods.get("drop_rel")
    good = False
    if dr is not None:
        for st in dr.node.body:
            if isinstance(st, ast.If) and isinstance(st.test, ast.Compare) and isinstance(st.test.ops[0], ast.Lt) \
                    and isinstance(st.test.left, ast.Call) and dotted(st.test.left.func) == "self._rel_ref_count" \
                    and prog.const(st.test.comparators[0], dr.module) == 2 \
                    and any(isinstance(x, ast.Call) and dotted(x.func) == "self._rels.pop" for b in st.body for x in ast.walk(b)):
                good = True
    if good:
        ctx.ok("R2.4", "XmlPart.drop_rel:count", sample={"rule": "pop only when _rel_ref_count(rId) < 2 (the reference being removed is still counted)"})
    else:
        ctx.violation("R2.4", "XmlPart.drop_rel:count", "drop_rel does not keep relationships that are still referenced elsewhere",
                      file=xp.file, line=dr.line if dr else xp.line)


# -- R2.5 ---------------------------------------------------------------------------------------------
def _r25(ctx, prog, M, T):
    ctx.rule("R2.5", "the content type a part class is constructed with maps back to that class in content_type_to_part_class_map")
    init = prog.modules.get("pptx")
    if init is None or "content_type_to_part_class_map" not in init.assigns:
        raise AnalysisError("anchor vanished: pptx.content_type_to_part_class_map")
    from checks.c15 import part_class_registry

    mp = part_class_registry(prog, ctx)
    ctx.count("registry_rows", len(mp))
    # registration loop must exist
    installed = False
    for n_ in ast.walk(init.tree):
        # PartFactory.part_type_for.update(<map>)  /  PartFactory.part_type_for = <map>  /  for k, v in <map>.items(): part_type_for[k] = v
        if isinstance(n_, ast.Call) and isinstance(n_.func, ast.Attribute) and n_.func.attr == "update" \
                and (dotted(n_.func.value) or "").endswith("part_type_for") and n_.args and dotted(n_.args[0]) == "content_type_to_part_class_map":
            installed = True
        if isinstance(n_, ast.Assign) and any((dotted(t) or "").endswith("part_type_for") for t in n_.targets) \
                and "content_type_to_part_class_map" in ast.unparse(n_.value):
            installed = True
        if isinstance(n_, ast.For) and "content_type_to_part_class_map" in ast.unparse(n_.iter) and any(
                isinstance(x, ast.Assign) and isinstance(x.targets[0], ast.Subscript) and (dotted(x.targets[0].value) or "").endswith("part_type_for")
                for x in ast.walk(n_)):
            installed = True
    if not installed:
        ctx.violation("R2.5", "registration", "content_type_to_part_class_map is not installed into PartFactory.part_type_for",
                      file=init.relpath, line=1)
    else:
        ctx.ok("R2.5", "registration", nontrivial=False)
    pcs = set(_part_classes(prog))
    n = 0
    for f in prog.all_functions():
        if f.cls is None or f.cls not in pcs:
            continue
        fc = FCtx(f)
        for c in walk_own(f.node):
            if not isinstance(c, ast.Call):
                continue
            ft = T.expr(c.func, fc)
            target = [a[1] for a in ft if a[0] == "class" and a[1] in pcs]
            is_cls_call = isinstance(c.func, ast.Name) and c.func.id == "cls"
            is_load = isinstance(c.func, ast.Attribute) and c.func.attr == "load" and dotted(c.func.value) == "cls"
            if not (target or is_cls_call or is_load):
                continue
            ctarg = c.args[1] if len(c.args) > 1 else None
            for kw in c.keywords:
                if kw.arg == "content_type":
                    ctarg = kw.value
            if ctarg is None:
                continue
            ctv = prog.const(ctarg, f.module)
            variants = [(target[0] if target else f.cls, ctv)]
            if not isinstance(ctv, str) and (dotted(ctarg) or "").startswith(("cls.", "self.")) and (is_cls_call or is_load):
                # a class-level constant (`cls.content_type`): one construction per concrete class that runs this code
                variants = []
                for k_ in [f.cls] + list(prog.subclasses(f.cls)):
                    v_ = prog.const(ctarg, f.module, None, k_)
                    if isinstance(v_, str):
                        variants.append((k_, v_))
            for cls, ctv in variants:
              if not isinstance(ctv, str):
                continue  # computed (image / media content types): checked by C15
              n += 1
              key = "%s@%d" % (f.qualname, c.lineno) + (":" + cls.name if len(variants) > 1 else "")
              reg = mp.get(ctv)
              if True:
                    if reg is None:
                        if cls.name in ("XmlPart", "Part") or ctv.endswith(("theme+xml", "oleObject")) or "package" in ctv or len(variants) > 1 \
                              or (dotted(ctarg) or "").startswith(("cls.", "self.")):
                            ctx.ok("R2.5", key, sample={"class": cls.name, "content_type": ctv, "registry": "unmapped (generic Part on reload)"},
                                   nontrivial=False)
                        else:
                            ctx.violation("R2.5", key, "%s is created with content type %s which has no row in the registry: the part "
                                          "re-opens as a generic Part" % (cls.name, ctv), file=f.file, line=c.lineno)
                    elif reg is cls or reg in prog.mro(cls) or cls in prog.mro(reg):
                        ctx.ok("R2.5", key, sample={"class": cls.name, "content_type": ctv, "registry": reg.name})
                    else:
                        ctx.violation("R2.5", key, "%s is created with content type %s, which the registry maps to %s" % (
                            cls.name, ctv, reg.name), file=f.file, line=c.lineno)
    ctx.count("typed_construction_sites", n)


# -- R2.6 ---------------------------------------------------------------------------------------------
def _r26(ctx, prog, M, T):
    ctx.rule("R2.6", "writer closure: one part sequence feeds content types and members; rels items for parts with rels; package rels")
    from checks.c01 import writer_closure_rules

    writer_closure_rules(ctx, prog, "R2.6")



# -- R2.8 ---------------------------------------------------------------------------------------------
def _identity_eq(f):
    """`__eq__` that is identity: every return is `self is other`, `id(self) == id(other)`, NotImplemented, False, or super's"""
    ps = [a.arg for a in f.node.args.args]
    if len(ps) != 2:
        return False
    a, b = ps
    for r in [x for x in ast.walk(f.node) if isinstance(x, ast.Return)]:
        v = r.value
        if v is None:
            return False
        if isinstance(v, ast.Constant) and v.value is False:
            continue
        if isinstance(v, ast.Name) and v.id == "NotImplemented":
            continue
        if isinstance(v, ast.Compare) and len(v.ops) == 1 and isinstance(v.ops[0], ast.Is) and {dotted(v.left), dotted(v.comparators[0])} == {a, b}:
            continue
        if isinstance(v, ast.Compare) and len(v.ops) == 1 and isinstance(v.ops[0], ast.Eq) \
                and {ast.unparse(v.left), ast.unparse(v.comparators[0])} == {"id(%s)" % a, "id(%s)" % b}:
            continue
        if isinstance(v, ast.Call) and (dotted(v.func) or "").endswith(".__eq__") and (dotted(v.func) or "").startswith(("super()", "object")):
            continue
        return False
    return True


def _r28(ctx, prog, M, T):
    """The package walk yields each part once by keeping the parts it has seen in a set (`if part in visited`): membership in a set
    is by __hash__ / __eq__.  With the default (identity) two distinct parts are never taken for each other; a part class that
    defines equality by content makes the walk drop the second of two equal parts: it is not written and gets no content type."""
    ctx.rule("R2.8", "the package walk tells parts apart by identity: no part class defines equality or hashing by content")
    pk = prog.modules.get("pptx.opc.package")
    opc = pk.classes.get("OpcPackage") if pk else None
    part = pk.classes.get("Part") if pk else None
    ip = prog.lookup(opc, "iter_parts") if opc else None
    if not (opc and part and ip):
        raise AnalysisError("anchor vanished: OpcPackage.iter_parts / Part")
    from sa.inline import walk_expanded

    # how does the walk remember the parts it has yielded?  a set / dict tested with `in` (equality), or ids (identity)
    by_equality, by_identity = [], []
    for n, owner in walk_expanded(prog, ip, depth=2):
        if isinstance(n, ast.Compare) and len(n.ops) == 1 and isinstance(n.ops[0], (ast.In, ast.NotIn)):
            l = ast.unparse(n.left)
            (by_identity if l.startswith("id(") else by_equality).append("%s:%d `%s`" % (owner.qualname, n.lineno, ast.unparse(n)))
    classes = [c for c in prog.all_classes() if part in prog.mro(c)]
    ctx.count("part_classes", len(classes))
    if not by_equality and not by_identity:
        ctx.error("OpcPackage.iter_parts", "how the walk recognises a part it has already yielded is not recognised")
        return
    n_def = 0
    for c in classes:
        eq, hs = c.methods.get("__eq__"), c.methods.get("__hash__")
        key = "%s.__eq__" % c.name
        if eq is None and hs is None:
            continue
        n_def += 1
        if not by_equality:
            ctx.ok("R2.8", key, sample={"walk": "remembers ids", "class": c.fq})
        elif eq is not None and not _identity_eq(eq):
            ctx.violation("R2.8", key, "%s defines equality that is not identity, and the package walk (%s) recognises visited parts by "
                          "equality: of two distinct parts that compare equal only the first is yielded, the other is not saved and gets "
                          "no content type" % (c.name, by_equality[0]), file=c.file, line=eq.line)
        elif eq is None and hs is not None:
            ctx.error(key, "%s defines __hash__ without __eq__: not decided" % c.name)
        else:
            ctx.ok("R2.8", key, sample={"class": c.fq, "equality": "identity"})
    ctx.ok("R2.8", "part classes", sample={"part_classes": len(classes), "defining __eq__/__hash__": n_def,
                                           "walk": (by_equality or by_identity)[0]})
