#!/bin/sh
# usage: tools/scratch.sh <benign|seeded>/<id>  -> prints a scratch copy of /repo with the patch applied (caller removes it)
d=$(mktemp -d /var/tmp/vs-XXXXXX); mkdir -p $d/src; cp -r /repo/src/pptx $d/src/; ln -s /repo/spec $d/spec
/venv/bin/python - $d /verif/$1/patch.diff <<'PY' || exit 1
import re,sys,subprocess,os
d,p=sys.argv[1:3]
parts=re.split(r'(?m)^(?=diff --git )', open(p).read())
keep=[x for x in parts if not x.startswith('diff --git ') or re.match(r'diff --git a/src/pptx/', x)]
open(d+'/.p.diff','w').write(''.join(keep))
r=subprocess.run(['patch','-p1','-s','-i',d+'/.p.diff'],cwd=d)
os.remove(d+'/.p.diff')
sys.exit(r.returncode)
PY
echo $d
