"""C20 — enumerations and the preset-shape table agree with the standard.

Rules
  R20.1  XML-mapped enumerations: tokens pairwise distinct, integer values pairwise distinct, aliases resolve
  R20.2  each token belongs to the enumeration of the schema simple type the enum is paired with by use
         (attribute declarations / template attribute positions); string-enumeration simple types likewise
  R20.3  autoshape_types table == MSO_AUTO_SHAPE_TYPE members == presetShapeDefinitions.xml (names, order, defaults)
  R20.4  add/read-back path for auto shapes is the enum's to_xml/from_xml through a:prstGeom/@prst
  R20.5  chart types: writer factory x PlotTypeInspector are inverse on the 29 writable types (checks/c20_charts.py)
"""

from __future__ import annotations

import ast
import os
import xml.etree.ElementTree as ET

from sa.attrpair import pairings, schema_types_for_pyclass
from sa.pysrc import ClassInfo, ClassRef, EnumMember, Unknown, dotted
from sa.report import AnalysisError

DEFS = "spec/ISO-IEC-29500-1/schemas/dml-geometries/OfficeOpenXML-DrawingMLGeometries/presetShapeDefinitions.xml"


def run(ctx):
    from checks.c10 import load

    prog, S, M = load(ctx.repo)
    ctx.level = "proof"
    ctx.trusted = [
        "CPython ast / xml.etree parsers",
        "schema enumerations in /repo/spec/ISO-IEC-29500-4/xsd and presetShapeDefinitions.xml as the oracle",
        "enum.Enum semantics: members with equal integer value are aliases of the first; BaseXmlEnum.from_xml returns the "
        "first member whose xml_value matches (re-verified structurally by R20.1m)",
    ]
    ctx.explanation = (
        "Finite tables compared exhaustively: every BaseXmlEnum member (value, token) against its siblings and against the "
        "enumeration of the schema simple type the enum is paired with by use; every row of autoshape_types against the "
        "enum and against the shipped preset shape definitions; the chart-type writer factory against the plot-type inspector.")
    ctx.not_decided = ["that a shape added through the API renders as that preset (geometry formulas are not compared)"]
    for m in prog.modules.values():
        if "/enum/" in m.path or m.path.endswith("spec.py"):
            ctx.note_file(m.path)

    pairs = pairings(prog, S, M)
    bycls = schema_types_for_pyclass(pairs)

    # -- R20.1m: from_xml / to_xml / validate have the recognised shape --------------------------------
    ctx.rule("R20.1m", "BaseXmlEnum.from_xml selects by xml_value equality and rejects the empty token; to_xml maps through "
                       "the member's xml_value and rejects members without one")
    base = prog.cls("pptx.enum.base", "BaseXmlEnum")
    fx = base.methods.get("from_xml")
    tx = base.methods.get("to_xml")
    if fx is None or tx is None:
        raise AnalysisError("anchor vanished: BaseXmlEnum.from_xml/to_xml")
    from sa import paths as P_
    from sa.desugar import desugar as _desugar
    from sa.idioms import first_matches

    fparam = fx.node.args.args[1].arg
    fm = [m_ for m_ in first_matches(prog, fx) if m_["terminal"] == "cls" and m_["elt"] == "_"]
    # the search may live in a helper classmethod called with the token (`cls._first_member_having(xml_value)`)
    import re as _re

    helper_search = []
    for c_ in ast.walk(fx.node):
        if isinstance(c_, ast.Call) and isinstance(c_.func, ast.Attribute) and dotted(c_.func.value) in ("cls", "self") and len(c_.args) == 1 \
                and dotted(c_.args[0]) == fparam:
            g_ = prog.lookup(base, c_.func.attr)
            if g_ is not None and g_ is not fx:
                gp_ = [a.arg for a in g_.node.args.args if a.arg not in ("cls", "self")]
                for m_ in first_matches(prog, g_):
                    if m_["terminal"] == "cls" and m_["elt"] == "_" and gp_:
                        fm.append(dict(m_, conds=[_re.sub(r"\b%s\b" % _re.escape(gp_[0]), fparam, x) for x in m_["conds"]]))
                        helper_search.append((g_, gp_[0], c_))
    eq = {"_.xml_value == %s" % fparam, "%s == _.xml_value" % fparam}
    raises_fx = [n for n in ast.walk(fx.node) if isinstance(n, ast.Raise)]
    rows = P_.outcomes(_desugar(fx.node).body)
    # the empty token never maps to a member: every returning path has established that the token is non-empty
    ret_rows = P_.return_rows_deep(_desugar(fx.node).body)
    empty_rows = ret_rows
    nonempty_ok = bool(ret_rows) and all(P_.implied(fs_, lambda a_: a_[0] == "truthy" and a_[1] == fparam and a_[2] is True) for fs_, _n in ret_rows)
    if not nonempty_ok and helper_search:
        # the search helper answers None for the empty token, and from_xml hands out only what is not None
        g_, gp0, call_ = helper_search[0]
        hrows = P_.return_rows_deep(_desugar(g_.node).body)
        helper_ok = bool(hrows) and all(
            (isinstance(n_.value, ast.Constant) and n_.value.value is None) or n_.value is None
            or P_.implied(fs_, lambda a_: a_[0] == "truthy" and a_[1] == gp0 and a_[2] is True) for fs_, n_ in hrows)
        fval_ = P_.value_aliases(_desugar(fx.node))
        holders = {k_ for k_, v_ in fval_.items() if v_ is call_ or ast.dump(v_) == ast.dump(call_)}
        caller_ok = bool(ret_rows) and all(P_.implied(fs_, lambda a_: a_[0] == "none" and a_[1] in holders and a_[2] is False) for fs_, _n in ret_rows)
        nonempty_ok = helper_ok and caller_ok
    # every member handed out is one found among the members of `cls`: a store shared by all enumerations (a module-level memo keyed by
    # the token) hands the member of whichever enumeration resolved the token first to all the others ("ctr", "l", "none" ... occur
    # in several)
    foreign = None
    # the names a member is returned through (`return member`, `return cast(T, member)`)
    ret_names = set()
    for r_ in [x for x in ast.walk(fx.node) if isinstance(x, ast.Return) and x.value is not None]:
        v_ = r_.value
        while isinstance(v_, ast.Call) and dotted(v_.func) in ("cast", "typing.cast") and len(v_.args) == 2:
            v_ = v_.args[1]
        if isinstance(v_, ast.Name):
            ret_names.add(v_.id)
    feeds_return = set()
    for a_ in ast.walk(fx.node):
        if isinstance(a_, ast.Assign) and any(isinstance(t_, ast.Name) and t_.id in ret_names for t_ in a_.targets):
            feeds_return |= {id(x) for x in ast.walk(a_.value)}
        elif isinstance(a_, ast.Return) and a_.value is not None:
            feeds_return |= {id(x) for x in ast.walk(a_.value)}
    for n_ in ast.walk(fx.node):
        if id(n_) not in feeds_return:
            continue      # e.g. a token-to-token alias table applied to the argument: not a source of members
        src_ = None
        if isinstance(n_, ast.Call) and isinstance(n_.func, ast.Attribute) and n_.func.attr in ("get", "setdefault", "pop") and isinstance(n_.func.value, ast.Name):
            src_ = n_.func.value.id
        elif isinstance(n_, ast.Subscript) and isinstance(n_.ctx, ast.Load) and isinstance(n_.value, ast.Name):
            src_ = n_.value.id
        if src_ is not None and src_ in fx.module.assigns and not any(
                isinstance(x, ast.Name) and x.id == src_ and isinstance(x.ctx, ast.Store) for x in ast.walk(fx.node)):
            keyed = ast.unparse(n_.args[0] if isinstance(n_, ast.Call) and n_.args else n_.slice if isinstance(n_, ast.Subscript) else n_)
            if "cls" not in keyed:
                foreign = (src_, ast.unparse(n_)[:60], n_.lineno)
    if foreign:
        ctx.violation("R20.1m", "BaseXmlEnum.from_xml", "a member is taken from the module-level store `%s` (`%s`), keyed without the enumeration: "
                      "a token that occurs in several enumerations is answered with the member of the one that resolved it first" % foreign[:2],
                      file=fx.file, line=foreign[2])
    elif not fm:
        ctx.error("BaseXmlEnum.from_xml", "the member search (first member of cls with ...) is not recognised")
    elif any(set(m_["conds"]) <= eq and m_["conds"] for m_ in fm) and raises_fx and all(_exc_name(r) == "ValueError" for r in raises_fx) \
            and nonempty_ok:
        ctx.ok("R20.1m", "BaseXmlEnum.from_xml", sample={"selects": "first member of cls with member.xml_value == xml_value", "raises": "ValueError",
                                                       "empty_token": "ValueError"})
    else:
        ctx.violation("R20.1m", "BaseXmlEnum.from_xml", "reader does not select the member by token equality / wrong exception (search %s)" % fm,
                      file=fx.file, line=fx.line)
    uses_xml = any(isinstance(n, ast.Attribute) and n.attr == "xml_value" for n in ast.walk(tx.node))
    ctor = any(isinstance(n, ast.Call) and dotted(n.func) == "cls" for n in ast.walk(tx.node))
    raises_tx = [n for n in ast.walk(tx.node) if isinstance(n, ast.Raise)]
    if uses_xml and ctor and raises_tx and all(_exc_name(r) == "ValueError" for r in raises_tx):
        ctx.ok("R20.1m", "BaseXmlEnum.to_xml", sample={"maps": "cls(value).xml_value", "raises": "ValueError"})
    else:
        ctx.violation("R20.1m", "BaseXmlEnum.to_xml", "writer does not map through the member's xml_value",
                      file=tx.file, line=tx.line)

    # -- R20.1 / R20.2 --------------------------------------------------------------------------------
    ctx.rule("R20.1", "tokens pairwise distinct within an enumeration (else from_xml(to_xml(m)) != m); integer values "
                      "pairwise distinct (else Enum aliasing silently merges members)")
    ctx.rule("R20.2", "every token is in the enumeration of the paired schema simple type")
    xml_enums = sorted((c for c in prog.all_classes() if prog.is_xml_enum(c)), key=lambda c: c.name)
    other_enums = sorted((c for c in prog.all_classes() if prog.is_enum(c) and not prog.is_xml_enum(c)),
                         key=lambda c: c.name)
    npairs = 0
    tmpl_pairs = _template_enum_pairs(prog, S, M)
    for c in xml_enums:
        members = prog.enum_members(c)
        if not members:
            ctx.error(c.fq, "XML enumeration with no foldable members")
            continue
        # members with equal integer value are aliases of the first (one Enum member); an alias whose
        # token differs from the canonical member's loses its token silently
        by_tok, by_val = {}, {}
        for m in members:
            by_val.setdefault(m.value, []).append(m)
        canon = []
        for val, ms in by_val.items():  # definition order (from_xml returns the first match in that order)
            first = ms[0]
            canon.append(first)
            if len(ms) > 1:
                toks = {x.xml or "" for x in ms}
                key = "%s.%s:alias" % (c.name, "/".join(x.name for x in ms))
                if len(toks) > 1:
                    ctx.violation("R20.1", key, "members share the integer value %d (aliases of %s) but carry different "
                                  "tokens %s: the later token is never written" % (val, first.name, sorted(toks)),
                                  file=c.file, line=ms[1].line)
                else:
                    ctx.ok("R20.1", key, sample={"enum": c.name, "aliases": [x.name for x in ms], "token": first.xml})
        for m in canon:
            if m.xml:
                by_tok.setdefault(m.xml, []).append(m)
                npairs += 1
        canon.sort(key=lambda x: x.line)
        by_tok = {}
        for m in canon:
            if m.xml:
                by_tok.setdefault(m.xml, []).append(m)
        for tok, ms in sorted(by_tok.items()):
            key = "%s.%s" % (c.name, "/".join(x.name for x in ms))
            if len(ms) > 1:
                ctx.violation("R20.1", key + ":token", "members share the XML token %r: %s reads back as %s" % (
                    tok, ", ".join(x.name for x in ms[1:]), ms[0].name), file=c.file, line=ms[1].line,
                    sample={"enum": c.name, "token": tok, "members": [x.name for x in ms]})
            else:
                ctx.ok("R20.1", key + ":token", nontrivial=False)
        ctx.rules["R20.1"].nontrivial.add(c.name)
        if len(ctx.rules["R20.1"].samples) < 4:
            ctx.rules["R20.1"].samples.append({"enum": c.name, "members": len(members), "tokens": len(by_tok)})
        # pairing
        stypes = set(bycls.get(c, {})) | set(tmpl_pairs.get(c, set()))
        if not stypes:
            ctx.violation("R20.2", c.name + ":unpaired", "XML enumeration is not used by any attribute declaration or template "
                          "attribute, so no schema simple type can be paired with it", file=c.file, line=c.line)
            continue
        for sq in sorted(stypes):
            enums = S.st_enums(sq)
            if enums is None:
                prim = S.st_primitive(sq)
                ctx.ok("R20.2", "%s~%s" % (c.name, S.tname(sq)), nontrivial=False,
                       sample={"enum": c.name, "schema_type": S.tname(sq), "note": "schema type is %s without enumeration; "
                               "only distinctness applies" % prim})
                continue
            eset = set(enums)
            bad = [m for m in members if m.xml and m.xml not in eset]
            for m in bad:
                ctx.violation("R20.2", "%s.%s~%s" % (c.name, m.name, S.tname(sq)),
                              "token %r is not in the schema enumeration %s" % (m.xml, S.tname(sq)),
                              file=c.file, line=m.line)
            if not bad:
                ctx.ok("R20.2", "%s~%s" % (c.name, S.tname(sq)),
                       sample={"enum": c.name, "schema_type": S.tname(sq), "tokens_checked": len(by_tok),
                               "schema_tokens_without_member": sorted(eset - set(by_tok))[:8]})
            unmapped = sorted(eset - set(by_tok))
            if unmapped:
                ctx.info("R20.2", "%s: %d schema tokens of %s have no member (reading such a value raises ValueError): %s" % (
                    c.name, len(unmapped), S.tname(sq), ", ".join(unmapped[:12])))
    ctx.count("xml_enums", len(xml_enums))
    ctx.count("member_token_pairs", npairs)
    # plain (non-XML) enumerations are outside the statement; duplicate values are reported as information
    for c in other_enums:
        by_val = {}
        for m in prog.enum_members(c):
            by_val.setdefault(m.value, []).append(m)
        for v, ms in sorted(by_val.items()):
            if len(ms) > 1:
                ctx.info("R20.1", "non-XML enum %s: %s share the value %d (aliases)" % (c.name, "/".join(x.name for x in ms), v))
    # aliases
    nalias = 0
    for m in prog.modules.values():
        if not m.name.startswith("pptx.enum."):
            continue
        for name, expr in m.assigns.items():
            if isinstance(expr, ast.Name) and name.isupper():
                r = prog.resolve(m, expr.id)
                nalias += 1
                if isinstance(r, ClassInfo) and prog.is_enum(r):
                    ctx.ok("R20.1", "alias %s=%s" % (name, expr.id), nontrivial=False)
                else:
                    ctx.violation("R20.1", "alias %s" % name, "alias does not resolve to an enumeration", file=m.relpath,
                                  line=expr.lineno)
    ctx.count("aliases", nalias)

    # string-enumeration simple types
    stmod = prog.modules.get("pptx.oxml.simpletypes")
    if stmod is None:
        raise AnalysisError("anchor vanished: pptx.oxml.simpletypes")
    nse = 0
    for c in stmod.classes.values():
        if not any(k.name in ("XsdStringEnumeration", "XsdTokenEnumeration") for k in prog.mro(c)[1:]):
            continue
        mem = prog.lookup_attr(c, "_members")
        vals = prog.const(mem[1], mem[0].module, None, mem[0]) if mem else None
        if not isinstance(vals, (tuple, list)) or not all(isinstance(v, str) for v in vals):
            ctx.error(c.fq, "_members of string enumeration does not fold")
            continue
        nse += 1
        if len(set(vals)) != len(vals):
            ctx.violation("R20.1", c.name + ":members", "duplicate token in _members", file=c.file, line=c.line)
        else:
            ctx.ok("R20.1", c.name + ":members", nontrivial=False)
        stypes = set(bycls.get(c, {}))
        if not stypes:
            ctx.info("R20.2", "%s is not used by any attribute declaration" % c.name)
            continue
        union = set()
        enumerated = True
        for sq in stypes:
            e = S.st_enums(sq)
            if e is None:
                enumerated = False
            else:
                union |= set(e)
        if not enumerated:
            ctx.ok("R20.2", c.name, nontrivial=False)
            continue
        bad = [v for v in vals if v not in union]
        if bad:
            ctx.violation("R20.2", c.name, "tokens %s are not in the schema enumeration(s) %s" % (
                bad, [S.tname(q) for q in stypes]), file=c.file, line=c.line)
        else:
            ctx.ok("R20.2", c.name, sample={"simple_type": c.name, "schema_types": [S.tname(q) for q in sorted(stypes)],
                                            "tokens": list(vals)})
    ctx.count("string_enum_types", nse)

    _autoshapes(ctx, prog, S, M)
    from checks import c20_charts

    ctx.rule("R20.5", "chart.chart_type (PlotTypeInspector) returns the type each chart XML writer was asked to write")
    c20_charts.run(ctx, prog, S, M, c20_charts.per_type_skeletons(ctx, prog, M), "R20.5")


def _exc_name(r):
    e = r.exc
    if isinstance(e, ast.Call):
        e = e.func
    return dotted(e) if e is not None else None


def _template_enum_pairs(prog, S, M):
    """Enum classes whose to_xml(...) result fills a template attribute: {enum ClassInfo: {schema simple type}}.

    Forward flow: `<Enum>.to_xml(x)` used directly in a template of the same function, or passed as an
    argument and carried through parameters (depth <= 4) to a function whose parsed template has a hole
    fed by that parameter; the hole's attribute position gives the schema simple type."""
    from sa.strabs import StrEval
    from sa.types import FCtx, Types
    from sa.xmlskel import skeleton

    T = Types(prog, M)
    out = {}
    tmpl_cache = {}

    def templates(f):
        if f in tmpl_cache:
            return tmpl_cache[f]
        res = []
        if any(isinstance(n, ast.Call) and dotted(n.func) == "parse_xml" for n in ast.walk(f.node)):
            ev = StrEval(prog, T)
            env = {}
            params = list(f.params)
            if f.cls is not None and f.kind != "staticmethod" and params:
                env[params[0]] = ("self", f.cls)
            rets = []
            try:
                ev._block(f.node.body, FCtx(f), env, rets)
                for v in list(env.values()) + rets:
                    if isinstance(v, tuple) and v and v[0] == "parsed" and not isinstance(v[1], tuple):
                        try:
                            res.append(skeleton(v[1], prog.nsmap))
                        except AnalysisError:
                            pass
            except Exception:  # noqa: BLE001
                pass
        tmpl_cache[f] = res
        return res

    def pair_holes(f, is_src, enum):
        for sk in templates(f):
            for mk in sk.markers:
                h = mk.hole
                if h is None or mk.attr is None or not is_src(h.expr):
                    continue
                for tq in sorted(t for t in S.elem_decls.get(mk.elem, ()) if t in S.ctypes):
                    a = S.attrs_of(tq).get(mk.attr)
                    if a is not None and a.type is not None:
                        out.setdefault(enum, set()).add(a.type)

    def flow(f, is_src, enum, depth, seen):
        pair_holes(f, is_src, enum)
        if depth <= 0:
            return
        fc = FCtx(f)
        for n in ast.walk(f.node):
            if not isinstance(n, ast.Call):
                continue
            hits = [(i, a) for i, a in enumerate(n.args) if is_src(a)]
            khits = [(k.arg, k.value) for k in n.keywords if k.arg and is_src(k.value)]
            if not hits and not khits:
                continue
            for callee, skip in T.callees(n, fc):
                if not hasattr(callee, "params"):
                    continue
                ps = callee.params[1:] if skip else callee.params
                names = [ps[i] for i, _ in hits if i < len(ps)] + [k for k, _ in khits]
                for pn in names:
                    key = (callee, pn)
                    if key in seen:
                        continue
                    seen.add(key)
                    flow(callee, _name_src(callee, pn), enum, depth - 1, seen)

    for f in prog.all_functions():
        for n in ast.walk(f.node):
            if isinstance(n, ast.Call) and isinstance(n.func, ast.Attribute) and n.func.attr == "to_xml":
                r = prog.resolve(f.module, dotted(n.func.value) or "")
                if isinstance(r, ClassInfo) and prog.is_xml_enum(r):
                    flow(f, _call_src(f, n), r, 4, set())
    return out


def _call_src(f, call):
    def is_src(expr):
        return _derives(expr, call, f)
    return is_src


def _name_src(f, pname):
    def is_src(expr):
        if isinstance(expr, ast.Name) and expr.id == pname:
            return True
        if isinstance(expr, ast.Name):
            for n in ast.walk(f.node):
                if isinstance(n, ast.Assign) and any(isinstance(t, ast.Name) and t.id == expr.id for t in n.targets):
                    if isinstance(n.value, ast.Name) and n.value.id == pname:
                        return True
        return False
    return is_src


def _derives(expr, call, f):
    if any(n is call for n in ast.walk(expr)):
        return True
    if isinstance(expr, ast.Name):
        for n in ast.walk(f.node):
            if isinstance(n, ast.Assign) and any(isinstance(t, ast.Name) and t.id == expr.id for t in n.targets):
                if any(x is call for x in ast.walk(n.value)):
                    return True
    return False


def _autoshapes(ctx, prog, S, M):
    ctx.rule("R20.3", "autoshape_types has exactly one row per MSO_AUTO_SHAPE_TYPE member; each member's token names a preset "
                      "shape definition whose avLst guides (names, order, defaults) equal the row's avLst")
    ctx.rule("R20.4", "auto shapes are written with prst = MSO_AUTO_SHAPE_TYPE.to_xml(id) into a:prstGeom/@prst and read "
                      "back with from_xml of the same attribute")
    spec = prog.modules.get("pptx.spec")
    if spec is not None and "autoshape_types" not in spec.assigns:
        # the table moved to another module and is re-exported, or lives somewhere else altogether: the one module that defines it
        r_ = prog.resolve(spec, "autoshape_types") if "autoshape_types" in spec.imports else None
        spec = r_[1] if isinstance(r_, tuple) and r_ and r_[0] == "expr" else None
    if spec is None:
        owners_ = [m_ for m_ in prog.modules.values() if "autoshape_types" in m_.assigns]
        spec = owners_[0] if len(owners_) == 1 else None
    if spec is None or "autoshape_types" not in spec.assigns:
        raise AnalysisError("anchor vanished: pptx.spec.autoshape_types")
    tbl_node = spec.assigns["autoshape_types"]
    if not isinstance(tbl_node, ast.Dict):
        raise AnalysisError("pptx.spec.autoshape_types is not a dict literal")
    rows = {}
    dup_keys = []
    for k, v in zip(tbl_node.keys, tbl_node.values):
        if k is None:
            # `**other_table`: the rows of a table built elsewhere (folded)
            sub = prog.const(v, spec)
            if not isinstance(sub, dict) or not all(isinstance(a, EnumMember) and isinstance(b, dict) for a, b in sub.items()):
                ctx.error("%s:%d" % (spec.relpath, v.lineno), "autoshape_types rows spliced in by `**%s` do not fold" % ast.unparse(v)[:40])
                continue
            for a, b in sub.items():
                if a.name in rows:
                    dup_keys.append(a.name)
                rows[a.name] = (a, b, v.lineno)
            continue
        kv = prog.const(k, spec)
        vv = prog.const(v, spec)
        if not isinstance(kv, EnumMember) or not isinstance(vv, dict):
            ctx.error("%s:%d" % (spec.relpath, k.lineno), "autoshape_types row does not fold")
            continue
        if kv.name in rows:
            dup_keys.append(kv.name)
        rows[kv.name] = (kv, vv, k.lineno)
    enum = prog.cls("pptx.enum.shapes", "MSO_AUTO_SHAPE_TYPE")
    members = [m for m in prog.enum_members(enum)]
    ctx.count("autoshape_rows", len(rows))
    ctx.count("autoshape_members", len([m for m in members if m.xml]))
    path = os.path.join(ctx.repo, DEFS)
    if not os.path.exists(path):
        raise AnalysisError("anchor vanished: %s" % DEFS)
    ctx.note_file(path)
    root = ET.parse(path).getroot()
    A = "{http://schemas.openxmlformats.org/drawingml/2006/main}"
    defs = {}
    for el in root:
        av = []
        avl = el.find(A + "avLst")
        if avl is not None:
            for gd in avl.findall(A + "gd"):
                av.append((gd.get("name"), gd.get("fmla")))
        defs.setdefault(el.tag, []).append(av)
    ctx.count("preset_definitions", sum(len(v) for v in defs.values()))
    for name in dup_keys:
        ctx.violation("R20.3", "row:%s:duplicate" % name, "autoshape_types lists the key twice (later row wins silently)",
                      file=spec.relpath, line=rows[name][2])
    for m in members:
        if not m.xml:
            # return-value-only member (MIXED): must not be in the table
            if m.name in rows:
                ctx.violation("R20.3", "row:%s" % m.name, "member without XML token has a table row", file=spec.relpath,
                              line=rows[m.name][2])
            continue
        key = "row:%s" % m.name
        if m.name not in rows:
            ctx.violation("R20.3", key + ":missing", "MSO_AUTO_SHAPE_TYPE.%s has no row in autoshape_types: "
                          "add_shape() raises KeyError" % m.name, file=enum.file, line=m.line)
            continue
        kv, row, line = rows[m.name]
        av = row.get("avLst")
        if not isinstance(av, tuple) or not isinstance(row.get("basename"), str):
            ctx.violation("R20.3", key + ":shape", "row lacks basename/avLst", file=spec.relpath, line=line)
            continue
        cands = defs.get(m.xml)
        if cands is None:
            ctx.violation("R20.3", key + ":undefined", "preset name %r is not defined in presetShapeDefinitions.xml" % m.xml,
                          file=enum.file, line=m.line)
            continue
        want = [(n, "val %d" % v) if isinstance(v, int) else (n, v) for n, v in av]
        if any(want == c for c in cands):
            ctx.ok("R20.3", key, sample={"member": m.name, "prst": m.xml, "avLst": list(av)[:4]}, nontrivial=bool(av))
        else:
            best = cands[-1]
            ctx.violation("R20.3", key + ":avLst", "avLst %s differs from the definition of %r: %s" % (
                [tuple(x) for x in av], m.xml, best), file=spec.relpath, line=line)
    for name in rows:
        if not any(m.name == name for m in members):
            ctx.violation("R20.3", "row:%s:nomember" % name, "row key is not a member", file=spec.relpath, line=rows[name][2])

    # -- R20.4 structural path ------------------------------------------------------------------
    ast_cls = prog.cls("pptx.shapes.autoshape", "AutoShapeType")
    prst = ast_cls.methods.get("prst")
    idf = ast_cls.methods.get("id_from_prst")
    if prst is None or idf is None:
        raise AnalysisError("anchor vanished: AutoShapeType.prst / id_from_prst")

    def calls_enum(fn, meth):
        for n in ast.walk(fn.node):
            if isinstance(n, ast.Call) and isinstance(n.func, ast.Attribute) and n.func.attr == meth:
                r = prog.resolve(fn.module, dotted(n.func.value) or "")
                if r is enum:
                    return n
        return None

    c1 = calls_enum(prst, "to_xml")
    if c1 is not None and c1.args and dotted(c1.args[0]) == "self._autoshape_type_id":
        ctx.ok("R20.4", "AutoShapeType.prst", sample={"writes": "MSO_AUTO_SHAPE_TYPE.to_xml(self._autoshape_type_id)"})
    else:
        ctx.violation("R20.4", "AutoShapeType.prst", "prst is not MSO_AUTO_SHAPE_TYPE.to_xml(own id)", file=prst.file,
                      line=prst.line)
    c2 = calls_enum(idf, "from_xml")
    if c2 is not None and c2.args and dotted(c2.args[0]) == idf.params[-1]:
        ctx.ok("R20.4", "AutoShapeType.id_from_prst", sample={"reads": "MSO_AUTO_SHAPE_TYPE.from_xml(prst)"})
    else:
        ctx.violation("R20.4", "AutoShapeType.id_from_prst", "reader is not MSO_AUTO_SHAPE_TYPE.from_xml(prst)", file=idf.file,
                      line=idf.line)
    # every basename of the table must survive the quoting context it is written into (shape name attribute):
    # the sanitiser in AutoShapeType.basename must cover the metacharacters that occur in the table
    bn = ast_cls.methods.get("basename")
    if bn is None:
        raise AnalysisError("anchor vanished: AutoShapeType.basename")
    chars = set()
    for name, (kv, row, line) in rows.items():
        b = row.get("basename")
        if isinstance(b, str):
            chars |= set(b) & set('&<>"\'')
    def _escaped_by(c_, owner, depth=0):
        """characters a call replaces by entities: saxutils.escape (with its entity map), quoteattr, or a helper of the repository
        that returns one of those applied to its argument; None when the call is not an escaper"""
        fd = dotted(c_.func) or ""
        if fd.split(".")[-1] == "escape" and not isinstance(prog.resolve(owner.module, fd), type(owner)):
            out = {"&", "<", ">"}
            ent = c_.args[1] if len(c_.args) > 1 else next((k.value for k in c_.keywords if k.arg == "entities"), None)
            if ent is not None:
                mp = prog.const(ent, owner.module, None, owner.cls)
                if isinstance(mp, dict):
                    out |= set(mp)
            return out
        if fd.split(".")[-1] == "quoteattr":
            return {"&", "<", ">", '"'}
        if depth > 3:
            return None
        from sa.inline import resolve_callee as _rc20

        try:
            rc_ = _rc20(prog, owner, c_, {})
        except Exception:  # noqa: BLE001
            rc_ = None
        g_ = rc_[0] if rc_ is not None and hasattr(rc_[0], "node") else None
        if g_ is None and fd:
            r_ = prog.resolve(owner.module, fd)
            g_ = r_ if hasattr(r_, "node") and hasattr(r_, "module") else None
        if g_ is None:
            return None
        rets_ = [r_.value for r_ in ast.walk(g_.node) if isinstance(r_, ast.Return) and r_.value is not None]
        if len(rets_) == 1 and isinstance(rets_[0], ast.Call):
            return _escaped_by(rets_[0], g_, depth + 1)
        return None

    covered = set()
    for c_ in [n for n in ast.walk(bn.node) if isinstance(n, ast.Call)]:
        e_ = _escaped_by(c_, bn)
        if e_ is not None:
            covered |= e_
    if chars <= covered:
        ctx.ok("R20.4", "AutoShapeType.basename", sample={"metacharacters_in_table": sorted(chars), "escaped": sorted(covered)})
    else:
        ctx.violation("R20.4", "AutoShapeType.basename", "auto-shape base names contain %s but the name is only sanitised for %s "
                      "before it is written into the double-quoted name attribute: add_shape() of that type fails to parse" % (
                          sorted(chars - covered), sorted(covered)), file=bn.file, line=bn.line)
    # the attribute declaration on a:prstGeom is typed with the enum
    pg = prog.cls("pptx.oxml.shapes.autoshape", "CT_PresetGeometry2D")
    d = [a for a in M.attr_decls(pg) if a.attr == "prst"]
    if d and isinstance(d[0].st, ClassRef) and d[0].st.cls is enum:
        ctx.ok("R20.4", "CT_PresetGeometry2D.prst", sample={"attr": "a:prstGeom/@prst", "type": enum.name})
    else:
        ctx.violation("R20.4", "CT_PresetGeometry2D.prst", "a:prstGeom/@prst is not typed with MSO_AUTO_SHAPE_TYPE",
                      file=pg.file, line=pg.line)
    # the new_autoshape_sp template places its prst parameter in a:prstGeom/@prst
    from sa.strabs import StrEval
    from sa.types import FCtx, Types
    from sa.xmlskel import skeleton

    shp = prog.cls("pptx.oxml.shapes.autoshape", "CT_Shape")
    f = shp.methods.get("new_autoshape_sp")
    if f is None:
        raise AnalysisError("anchor vanished: CT_Shape.new_autoshape_sp")
    T = Types(prog, M)
    ev = StrEval(prog, T)
    env = {}
    rets = []
    ev._block(f.node.body, FCtx(f), env, rets)
    parsed = [v for v in list(env.values()) + rets if isinstance(v, tuple) and v and v[0] == "parsed"]
    hit = False
    for v in parsed:
        sk = skeleton(v[1], prog.nsmap)
        for mk in sk.markers:
            if mk.hole is not None and mk.attr == "prst" and mk.elem == prog.qn("a:prstGeom") and \
                    isinstance(mk.hole.expr, ast.Name) and mk.hole.expr.id == "prst":
                hit = True
    if hit:
        ctx.ok("R20.4", "CT_Shape.new_autoshape_sp", sample={"template": "a:prstGeom/@prst <- parameter prst"})
    else:
        ctx.violation("R20.4", "CT_Shape.new_autoshape_sp", "template does not place the prst parameter in a:prstGeom/@prst",
                      file=f.file, line=f.line)

    # -- R20.7 ------------------------------------------------------------------------------------------
    ctx.rule("R20.7", "shape.adjustments holds one Adjustment of its own per guide of the preset's avLst, in order")
    ac = prog.cls("pptx.shapes.autoshape", "AdjustmentCollection")
    ia = ac.methods.get("_initialized_adjustments") if ac else None
    adj = prog.cls("pptx.shapes.autoshape", "Adjustment")
    if ia is None or adj is None:
        raise AnalysisError("anchor vanished: AdjustmentCollection._initialized_adjustments / Adjustment")
    from sa import paths as P_
    from sa.inline import expand as _exp207

    iax = _exp207(prog, ia, depth=3, local_only=True)
    val = P_.value_aliases(iax)
    key = "AdjustmentCollection._initialized_adjustments"
    guide_names = sorted({g[0] for _n, (_kv, row, _ln) in rows.items() for g in (row.get("avLst") or ()) if isinstance(g, tuple) and g})
    rets_ = [r for r in ast.walk(iax) if isinstance(r, ast.Return) and r.value is not None and not (
        isinstance(r.value, (ast.List, ast.Tuple)) and not r.value.elts)]
    verdict = None
    for r in rets_:
        e = r.value
        if isinstance(e, ast.Name):
            # `xs = []; for n, v in <guides>: xs.append(Adjustment(n, v))` is the comprehension it spells out
            for lp in [x for x in ast.walk(iax) if isinstance(x, ast.For) and not x.orelse]:
                app, tests = None, []
                for st in lp.body:
                    inner = st
                    if isinstance(st, ast.If) and not st.orelse and len(st.body) == 1:
                        inner = st.body[0]
                    if isinstance(inner, ast.Expr) and isinstance(inner.value, ast.Call) and isinstance(inner.value.func, ast.Attribute) \
                            and inner.value.func.attr == "append" and dotted(inner.value.func.value) == e.id and len(inner.value.args) == 1:
                        app = inner.value.args[0]
                        tests = [st.test] if inner is not st else []
                if app is not None and len([s_ for s_ in lp.body if not isinstance(s_, ast.Pass)]) == 1:
                    e = ast.copy_location(ast.ListComp(elt=app, generators=[ast.comprehension(target=lp.target, iter=lp.iter, ifs=tests, is_async=0)]), lp)
                    break
        if isinstance(e, ast.Name) and e.id in val:
            e = val[e.id]
        while isinstance(e, ast.Call) and dotted(e.func) in ("list", "tuple") and len(e.args) == 1:
            e = e.args[0]
            if isinstance(e, ast.Name) and e.id in val:
                e = val[e.id]
        if isinstance(e, ast.Call) and dotted(e.func) in ("starmap", "itertools.starmap") and len(e.args) == 2 \
                and (dotted(e.args[0]) or "").split(".")[-1] == "Adjustment":
            # starmap(Adjustment, <pairs>) is [Adjustment(a, b) for a, b in <pairs>]
            e = ast.copy_location(ast.ListComp(
                elt=ast.Call(func=e.args[0], args=[ast.Name(id="_n", ctx=ast.Load()), ast.Name(id="_v", ctx=ast.Load())], keywords=[]),
                generators=[ast.comprehension(target=ast.Tuple(elts=[ast.Name(id="_n", ctx=ast.Store()), ast.Name(id="_v", ctx=ast.Store())], ctx=ast.Store()),
                                              iter=e.args[1], ifs=[], is_async=0)]), e)
            ast.fix_missing_locations(e)
        src_txt = ast.unparse(e)
        if isinstance(e, ast.Attribute) and isinstance(e.value, ast.Call) and dotted(e.value.func):
            # `<Class>(...).<property>`: a memoised property of an object the class hands out again for the same arguments keeps its
            # value - and the objects in it - for every caller
            k_ = prog.resolve(ia.module, dotted(e.value.func))
            pr_ = prog.lookup(k_, e.attr) if hasattr(k_, "methods") else None
            if pr_ is not None and pr_.kind == "lazyproperty":
                shared_inst = prog.lookup(k_, "__new__") is not None or any(
                    isinstance(x, ast.Attribute) and x.attr == "_instances" for x in ast.walk(k_.node))
                if shared_inst:
                    verdict = ("violation", "the Adjustment objects come from `%s`, a value memoised on a %s instance, and %s hands out one "
                               "instance per type: every shape of the preset type gets the same Adjustment objects (copying the list does not "
                               "copy them)" % (src_txt[:60], k_.name, k_.name))
                    break
        if isinstance(e, ast.Subscript) and (dotted(e.value) or "").split(".")[0] in ("cls", "self", "AutoShapeType", "AdjustmentCollection", "Adjustment"):
            # the objects are taken out of a store that outlives the call (a class-level cache): every collection built from it holds
            # the same Adjustment objects
            verdict = ("violation", "the Adjustment objects come from `%s`, a store shared by every shape of the preset type (copying the list does "
                       "not copy them): an actual value loaded for, or assigned through, one shape shows in the others" % src_txt[:70])
            break
        if isinstance(e, (ast.ListComp, ast.GeneratorExp)) and len(e.generators) == 1 and isinstance(e.elt, ast.Call) \
                and (dotted(e.elt.func) or "").split(".")[-1] == "Adjustment":
            g = e.generators[0]
            it_src = P_.full(g.iter, val)
            tn = [x.id for x in ast.walk(g.target) if isinstance(x, ast.Name)]
            args_ = [dotted(a_) for a_ in e.elt.args]
            import re as _re207

            whole = _re207.fullmatch(r"(?:list|tuple)?\(?(?:[\w.]+\.)?default_adjustment_values\([^()]*\)\)?", it_src) is not None \
                or _re207.fullmatch(r"autoshape_types\[[^\[\]]*\]\[['\"]avLst['\"]\]", it_src) is not None
            if not whole:
                verdict = ("error", "the source `%s` of the adjustments is not the preset's avLst" % it_src[:60])
                break
            if args_ != tn[:2] or len(tn) != 2:
                verdict = ("error", "Adjustment(%s) is not built from (name, default) of the guide" % ", ".join(str(a_) for a_ in args_))
                break
            if g.ifs:
                # a filter: evaluated on the guide names of the table
                dropped, undec = [], False
                for nm_ in guide_names:
                    for t_ in g.ifs:
                        class _S(ast.NodeTransformer):
                            def visit_Name(self_, x):
                                return ast.copy_location(ast.Constant(value=nm_), x) if x.id == tn[0] else x
                        import copy as _copy

                        tt = _S().visit(_copy.deepcopy(t_))
                        try:
                            ok_ = eval(compile(ast.fix_missing_locations(ast.Expression(body=tt)), "<filter>", "eval"), {"__builtins__": {}}, {})  # noqa: S307 - constants only
                        except Exception:  # noqa: BLE001
                            undec = True
                            break
                        if not ok_:
                            dropped.append(nm_)
                            break
                if undec:
                    verdict = ("error", "the filter `%s` on the guides is not evaluated" % ast.unparse(g.ifs[0])[:60])
                elif dropped:
                    verdict = ("violation", "guides named %s of the presets' avLst get no Adjustment (filter `%s`): shape.adjustments is shorter than "
                               "the definition for the presets that have them" % (sorted(set(dropped)), ast.unparse(g.ifs[0])[:50]))
                else:
                    verdict = ("ok", "filter keeps every guide of the table")
                break
            verdict = ("ok", "one Adjustment(name, default) per guide, in order")
            break
        verdict = ("error", "how the list of adjustments is built is not recognised (`%s`)" % src_txt[:70])
        break
    if verdict is None:
        ctx.error(key, "no non-empty return recognised")
    elif verdict[0] == "ok":
        ctx.ok("R20.7", key, sample={"built": verdict[1], "guide_names_in_table": guide_names[:8]})
    elif verdict[0] == "error":
        ctx.error(key, verdict[1])
    else:
        ctx.violation("R20.7", key, verdict[1], file=ia.file, line=ia.line)
