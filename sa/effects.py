"""Engine E — effect summaries over the typed call graph.

Lattice PURE(0) < ADDS_EMPTY(1) < WRITES(2).  Only *document* effects count: mutations of oxml
elements that are not fresh in the function, of parts / relationship collections / packages.
"""

from __future__ import annotations

import ast

from .pysrc import ClassInfo, FuncInfo, dotted
from .report import AnalysisError
from .types import FCtx, walk_own
from .xmlchemy_model import choice_prop

PURE, ADDS_EMPTY, WRITES = 0, 1, 2
NAMES = {0: "PURE", 1: "ADDS-EMPTY", 2: "WRITES"}

LXML_TREE_FUNCS = {"cleanup_namespaces", "strip_attributes", "strip_elements", "strip_tags", "deannotate", "indent"}
LXML_MUTATORS = {"append", "insert", "remove", "addprevious", "addnext", "extend", "clear", "set", "replace",
                 "insert_element_before", "remove_all"}
CONTAINER_TYPES = {"CT_TextBody", "CT_TextParagraph", "CT_TextListStyle"}
# document-model classes whose internal collections are document state
MODEL_MODULES = ("pptx.opc.package", "pptx.package")


class Event:
    __slots__ = ("level", "what", "file", "line", "callee", "imprecise", "node", "neutral", "self_rooted", "fresh")

    def __init__(self, level, what, file, line, callee=None, imprecise=False, node=None, neutral=False):
        self.level, self.what, self.file, self.line, self.callee, self.imprecise = level, what, file, line, callee, imprecise
        self.node = node
        self.neutral = neutral  # validity-neutral: cannot make a valid part invalid (empty optional element, part renaming)
        self.self_rooted = False  # the mutated object / call receiver is rooted at `self`
        self.fresh = False  # call on a just-created receiver: only the callee's effects on objects other than self count


class Effects:
    def __init__(self, prog, S, M, T):
        self.prog, self.S, self.M, self.T = prog, S, M, T
        self.funcs = list(prog.all_functions())
        self.events = {}  # FuncInfo -> [Event] (primitives and call edges)
        self.summary = {}
        self.witness = {}
        self.relevant = {}  # FuncInfo -> may perform a validity-relevant mutation
        self.nonself = {}  # FuncInfo -> effect level on objects other than the receiver
        self.unresolved = []  # (FuncInfo, node, text)
        self._container_cache = {}
        self._byname = {}
        for f in self.funcs:
            self._byname.setdefault(f.name, []).append(f)
        for f in self.funcs:
            self.events[f] = self._scan(f)
        self._fixpoint()

    # -- classification of created subtrees ------------------------------------------------------
    def creates_empty_container(self, decl, tag, owner_cls):
        """True iff get_or_add of `tag` under a class creates an attribute-less, text-less subtree made only
        of formatting containers (schema type CT_*Properties / text-body scaffolding)."""
        key = (decl.cls, decl.prop, tag, owner_cls)
        if key in self._container_cache:
            return self._container_cache[key]
        res = self._creates_empty_container(decl, tag, owner_cls)
        self._container_cache[key] = res
        return res

    def valid_when_created(self, decl, tag, owner_cls):
        """True iff the element get_or_add creates is schema-valid as created."""
        return not self.creation_problems(decl, tag, owner_cls)

    def creation_problems(self, decl, tag, owner_cls):
        """Problems [(kind, path, msg)] of the element `_new_<x>` creates, against every schema type the
        child can have under owner_cls ([("unknown", ...)] when the creator is not understood)."""
        key = ("valid", decl.cls, decl.prop, tag, owner_cls)
        if key not in self._container_cache:
            self._container_cache[key] = self._creation_problems(decl, tag, owner_cls)
        return self._container_cache[key]

    def _created_node(self, f, owner_cls, _depth=0):
        """Node for the element a `_new_x` override returns, or None if not understood.
        Forms: template text (parse_xml / classmethod factory) or OxmlElement(tag) + constant attribute stores."""
        from .strabs import S as AS
        from .strabs import StrEval
        from .xmlskel import Node, skeleton

        prog = self.prog
        body = [s for s in f.node.body if not (isinstance(s, ast.Expr) and isinstance(s.value, ast.Constant))]
        if body and isinstance(body[0], ast.Assign) and isinstance(body[0].value, ast.Call) \
                and dotted(body[0].value.func) == "OxmlElement" and isinstance(body[0].targets[0], ast.Name):
            var = body[0].targets[0].id
            tag = prog.const(body[0].value.args[0], f.module)
            if not isinstance(tag, str):
                return None
            node = Node(prog.qn(tag), {}, "elem")
            cls = self.M.class_for_tag(tag)
            for st in body[1:]:
                if isinstance(st, ast.Return) and isinstance(st.value, ast.Name) and st.value.id == var:
                    return node, None
                if isinstance(st, ast.Assign) and len(st.targets) == 1 and isinstance(st.targets[0], ast.Attribute) \
                        and isinstance(st.targets[0].value, ast.Name) and st.targets[0].value.id == var and cls is not None:
                    v = prog.const(st.value, f.module)
                    d = [x for x in self.M.attr_decls(cls) if x.prop == st.targets[0].attr]
                    if d and isinstance(v, (int, str, bool)) and not isinstance(v, bool):
                        node.attrs[prog.qn(d[0].attr) if ":" in d[0].attr else d[0].attr] = str(v)
                        continue
                    if d and isinstance(v, bool):
                        node.attrs[d[0].attr] = "1" if v else "0"
                        continue
                if isinstance(st, ast.Expr) and isinstance(st.value, ast.Call) and isinstance(st.value.func, ast.Attribute) \
                        and st.value.func.attr == "append" and isinstance(st.value.func.value, ast.Name) \
                        and st.value.func.value.id == var and st.value.args and isinstance(st.value.args[0], ast.Call) \
                        and dotted(st.value.args[0].func) == "OxmlElement":
                    ctag = prog.const(st.value.args[0].args[0], f.module)
                    if isinstance(ctag, str):
                        ch = Node(prog.qn(ctag), {}, "elem")
                        ch.parent = node
                        node.children.append(ch)
                        continue
                return None
            return None
        if len(body) == 1 and isinstance(body[0], ast.Return) and isinstance(body[0].value, ast.Call) \
                and not body[0].value.args and isinstance(body[0].value.func, ast.Attribute) and _depth < 3:
            r = prog.resolve(f.module, dotted(body[0].value.func.value) or "")
            if isinstance(r, ClassInfo):
                g = prog.lookup(r, body[0].value.func.attr)
                if g is not None:
                    res = self._created_node(g, r, _depth + 1)
                    if res is not None:
                        return res
        ev = StrEval(prog, self.T)
        v = ev.function_value(f, owner_cls if f.cls is not None else None)
        if isinstance(v, tuple) and v and v[0] == "parsed":
            v = v[1]
        if not isinstance(v, AS):
            return None
        try:
            sk = skeleton(v, prog.nsmap)
        except AnalysisError:
            return None
        if len(sk.roots) != 1:
            return None
        return sk.roots[0], sk.markers

    def _creation_problems(self, decl, tag, owner_cls):
        from .xmlskel import Node
        from .xmlvalid import validate

        prog, S, M = self.prog, self.S, self.M
        p = choice_prop(tag) if decl.kind == "ZeroOrOneChoice" else decl.prop
        eff = M.effective(owner_cls, "_new_" + p)
        ctypes = set()
        owner_tags = M.tags_for_class(owner_cls) or [t for c in prog.subclasses(owner_cls) for t in M.tags_for_class(c)]
        for ot in owner_tags:
            for tq in sorted(t for t in S.elem_decls.get(prog.qn(ot), ()) if t in S.ctypes):
                ct = S.child_type(tq, prog.qn(tag))
                if ct is not None:
                    ctypes.add(ct)
        if not ctypes:
            return [("unknown", tag, "child type not found in the schema")]
        if eff is None or eff[0] == "generated":
            root, markers = Node(prog.qn(tag), {}, "elem"), None
        else:
            r = self._created_node(eff[1], owner_cls)
            if r is None:
                return [("unknown", tag, "creator %s not understood" % eff[1].qualname)]
            root, markers = r
        out = []
        # a creator with several returns (one template per kind of owner) creates one of several roots: each is judged
        def alternatives(n_):
            if n_.kind == "elem":
                return [n_]
            if n_.kind in ("alt", "opt") and n_.children:
                out_ = []
                for c_ in n_.children:
                    a_ = alternatives(c_)
                    if a_ is None:
                        return None
                    out_ += a_
                return out_
            return None

        roots = alternatives(root)
        if not roots:
            return [("unknown", tag, "creator %s: the created element is not one template (or a choice of templates)" % (
                eff[1].qualname if eff and eff[0] != "generated" else tag))]
        for rt in roots:
            for tq in sorted(ctypes):
                if tq not in S.ctypes:
                    continue
                for kind, path, msg, node in validate(S, rt, tq, markers):
                    if (kind, path, msg) not in out:
                        out.append((kind, path, msg))
        return out

    def _creates_empty_container(self, decl, tag, owner_cls):
        prog, S, M = self.prog, self.S, self.M
        p = choice_prop(tag) if decl.kind == "ZeroOrOneChoice" else decl.prop
        eff = M.effective(owner_cls, "_new_" + p)
        # candidate schema types of the child under every (tag, type) of the owner
        ctypes = set()
        owner_tags = M.tags_for_class(owner_cls) or [t for c in prog.subclasses(owner_cls) for t in M.tags_for_class(c)]
        for ot in owner_tags:
            for tq in sorted(t for t in S.elem_decls.get(prog.qn(ot), ()) if t in S.ctypes):
                ct = S.child_type(tq, prog.qn(tag))
                if ct is not None:
                    ctypes.add(ct)
        if not ctypes:
            return False

        def is_container(tq):
            n = tq[1]
            return (n.startswith("CT_") and n.endswith("Properties")) or n in CONTAINER_TYPES

        if not all(is_container(t) for t in ctypes):
            return False
        if eff is None or eff[0] == "generated":
            return True  # OxmlElement(tag): no attributes, no children
        # explicit _new_x: evaluate its template
        from .strabs import S as AS
        from .strabs import StrEval
        from .xmlskel import skeleton

        f = eff[1]
        ev = StrEval(prog, self.T)
        v = ev.function_value(f, owner_cls)
        if isinstance(v, tuple) and v and v[0] == "parsed":
            v = v[1]
        if not isinstance(v, AS):
            return False
        try:
            sk = skeleton(v, prog.nsmap)
        except AnalysisError:
            return False
        if sk.markers:
            return False
        for n in sk.elems():
            if any(not a.startswith("{http://www.w3.org/2000/xmlns/}") for a in n.attrs) or n.text:
                return False
        # every element of the subtree must itself be a container type
        for r in sk.roots:
            for tq in ctypes:
                if not self._subtree_containers(r, tq, is_container):
                    return False
        return True

    def _subtree_containers(self, node, tq, is_container):
        if not is_container(tq):
            return False
        for c in node.children:
            if c.kind != "elem":
                return False
            ct = self.S.child_type(tq, c.tag)
            if ct is None or not self._subtree_containers(c, ct, is_container):
                return False
        return True

    # -- scanning --------------------------------------------------------------------------------
    def fresh_roots(self, f, fc):
        """Local names bound only to freshly created loose elements / objects in f."""
        T = self.T
        assigns = {}
        for n in walk_own(f.node):
            if isinstance(n, ast.Assign):
                for t in n.targets:
                    if isinstance(t, ast.Name):
                        assigns.setdefault(t.id, []).append(n.value)
            elif isinstance(n, (ast.For, ast.comprehension)):
                for x in ast.walk(n.target):
                    if isinstance(x, ast.Name):
                        assigns.setdefault(x.id, []).append(None)
            elif isinstance(n, ast.With):
                for it in n.items:
                    if isinstance(it.optional_vars, ast.Name):
                        assigns.setdefault(it.optional_vars.id, []).append(None)
        params = set(f.params)
        fresh = set()
        for name, vals in assigns.items():
            if name in params:
                continue
            if vals and all(v is not None and self._is_creator(v, fc) for v in vals):
                fresh.add(name)
        return fresh

    def _is_creator(self, v, fc):
        if isinstance(v, ast.Call):
            fn = dotted(v.func)
            if fn in ("parse_xml", "OxmlElement", "deepcopy", "copy.deepcopy", "cast", "parse_from_template"):
                if fn == "cast" and len(v.args) == 2:
                    return self._is_creator(v.args[1], fc)
                return True
            if isinstance(v.func, ast.Attribute):
                a = v.func.attr
                if a.startswith("_new_"):
                    return True
                bt = self.T.expr(v.func.value, fc)
                if bt and all(x[0] == "class" for x in bt):
                    # classmethod / constructor on a class object: creates a new object
                    for x in bt:
                        if self.M.is_oxml_class(x[1]) and (a.startswith("new") or a in ("new",)):
                            return True
                    return False
            ft = self.T.expr(v.func, fc)
            if ft and all(x[0] == "class" and not self._is_model_class(x[1]) for x in ft):
                # plain constructor call of a non-document class (proxy / helper object)
                return False
        return False

    def _is_model_class(self, c):
        return c.module.name in MODEL_MODULES

    def _root_name(self, e):
        while isinstance(e, (ast.Attribute, ast.Subscript, ast.Call)):
            if isinstance(e, ast.Call):
                e = e.func
            else:
                e = e.value
        return e.id if isinstance(e, ast.Name) else None

    def _elem_like(self, t):
        return any(a[0] == "lxml" or (a[0] == "inst" and self.M.is_oxml_class(a[1])) for a in t)

    def _model_like(self, t):
        return any(a[0] == "inst" and (self._is_model_class(a[1]) or any(
            self._is_model_class(k) for k in self.prog.mro(a[1]))) for a in t)

    def _scan(self, f):
        T, M = self.T, self.M
        fc = FCtx(f)
        fresh = self.fresh_roots(f, fc)
        evs = []
        in_oxml = f.cls is not None and M.is_oxml_class(f.cls)
        in_model = f.cls is not None and any(self._is_model_class(k) for k in self.prog.mro(f.cls))
        for n in ast.walk(f.node):
            k = len(evs)
            if isinstance(n, (ast.Assign, ast.AugAssign, ast.AnnAssign, ast.Delete)):
                targets = n.targets if isinstance(n, (ast.Assign, ast.Delete)) else [n.target]
                for t in targets:
                    for tt in (t.elts if isinstance(t, (ast.Tuple, ast.List)) else [t]):
                        self._store(tt, f, fc, fresh, in_oxml, in_model, evs, isinstance(n, ast.Delete))
            elif isinstance(n, ast.Call):
                self._call(n, f, fc, fresh, in_oxml, in_model, evs)
            elif isinstance(n, ast.Attribute) and isinstance(n.ctx, ast.Load):
                self._load(n, f, fc, fresh, evs)
            root = None
            if isinstance(n, ast.Call) and isinstance(n.func, ast.Attribute):
                root = self._root_name(n.func.value)
            elif isinstance(n, ast.Attribute):
                root = self._root_name(n.value)
            elif isinstance(n, (ast.Assign, ast.AugAssign, ast.AnnAssign, ast.Delete)):
                tg = (n.targets if isinstance(n, (ast.Assign, ast.Delete)) else [n.target])[0]
                root = self._root_name(tg.value) if isinstance(tg, (ast.Attribute, ast.Subscript)) else None
            for e in evs[k:]:
                e.node = n
                e.self_rooted = root in ("self", "cls")
        return evs

    def _store(self, t, f, fc, fresh, in_oxml, in_model, evs, is_del):
        if isinstance(t, ast.Attribute):
            root = self._root_name(t.value)
            if root in fresh:
                return
            bt = self.T.expr(t.value, fc)
            if isinstance(t.value, ast.Name) and t.value.id == "self":
                if in_oxml:
                    # attribute declared / text on own element
                    if t.attr.startswith("_") and not self._is_decl_attr(f.cls, t.attr):
                        return
                    evs.append(Event(WRITES, "stores %s on own element" % t.attr, f.file, t.lineno))
                    return
                if in_model and t.attr in ("partname", "_partname", "_blob", "blob", "_element"):
                    if f.name != "__init__":
                        evs.append(Event(WRITES, "stores %s of a part" % t.attr, f.file, t.lineno,
                                         neutral=t.attr in ("partname", "_partname")))
                    return
                # a setter defined on the class itself?
                st = self.prog.lookup_setter(f.cls, t.attr) if f.cls else None
                if st is not None:
                    evs.append(Event(PURE, "setter", f.file, t.lineno, callee=st))
                return  # plain field store on a proxy: local state
            if self._elem_like(bt):
                evs.append(Event(WRITES, "stores .%s on an element (%s)" % (t.attr, ast.unparse(t.value)), f.file, t.lineno))
                return
            # property setter on a repo object
            for a in bt:
                if a[0] == "inst":
                    st = self.prog.lookup_setter(a[1], t.attr)
                    if st is not None:
                        evs.append(Event(PURE, "setter", f.file, t.lineno, callee=st))
                    elif self._model_like(frozenset([a])) and t.attr in ("partname", "blob", "_blob"):
                        evs.append(Event(WRITES, "stores %s of a part" % t.attr, f.file, t.lineno,
                                         neutral=t.attr == "partname"))
        elif isinstance(t, ast.Subscript):
            root = self._root_name(t.value)
            if root in fresh:
                return
            bt = self.T.expr(t.value, fc)
            if self._elem_like(bt):
                evs.append(Event(WRITES, "item store on an element", f.file, t.lineno))
            elif in_model and isinstance(t.value, ast.Attribute) and dotted(t.value.value) == "self" and f.name != "__init__":
                evs.append(Event(WRITES, "updates %s of %s" % (t.value.attr, f.cls.name), f.file, t.lineno))
            elif isinstance(t.value, ast.Attribute) and t.value.attr == "attrib" and self._elem_like(self.T.expr(t.value.value, fc)):
                evs.append(Event(WRITES, "attrib store on an element", f.file, t.lineno))

    def _is_decl_attr(self, cls, name):
        for d in self.M.attr_decls(cls):
            if d.prop == name:
                return True
        return False

    def _load(self, n, f, fc, fresh, evs):
        # property / lazyproperty getters are calls
        if isinstance(n.value, ast.Name) and n.value.id in ("self", "cls"):
            c = f.cls
            if c is None:
                return
            g = self.prog.lookup(c, n.attr)
            if g is not None and g.kind in ("property", "lazyproperty"):
                evs.append(Event(PURE, "property", f.file, n.lineno, callee=g))
            return
        bt = self.T.expr(n.value, fc)
        for a in bt:
            if a[0] == "inst":
                g = self.prog.lookup(a[1], n.attr)
                if g is not None and g.kind in ("property", "lazyproperty"):
                    evs.append(Event(PURE, "property", f.file, n.lineno, callee=g))
        if not bt or all(a[0] == "lxml" or (a[0] == "inst" and a[1].name == "BaseOxmlElement") for a in bt):
            cands = self.T.fallback_used.get(id(n))
            if cands:
                for cname in cands:
                    for c in self.prog.classes_named(cname):
                        g = self.prog.lookup(c, n.attr)
                        if g is not None and g.kind in ("property", "lazyproperty"):
                            evs.append(Event(PURE, "property", f.file, n.lineno, callee=g, imprecise=len(cands) > 1))

    def _getattr_names(self, f, e):
        """the attribute names `e` (second argument of getattr) can stand for: a constant, or - when it is a parameter of f - the
        constants the call sites of f (found by name) pass for it"""
        if isinstance(e, ast.Constant) and isinstance(e.value, str):
            return [e.value]
        if isinstance(e, ast.Name) and e.id in f.params:
            ps = f.params[1:] if (f.cls is not None and f.kind != "staticmethod") else f.params
            if e.id not in ps:
                return []
            i = ps.index(e.id)
            names = set()
            for g in self.prog.all_functions():
                for c in ast.walk(g.node):
                    if isinstance(c, ast.Call) and ((isinstance(c.func, ast.Attribute) and c.func.attr == f.name)
                                                    or (isinstance(c.func, ast.Name) and c.func.id == f.name)):
                        a = c.args[i] if i < len(c.args) else next((k.value for k in c.keywords if k.arg == e.id), None)
                        if isinstance(a, ast.Constant) and isinstance(a.value, str):
                            names.add(a.value)
            return sorted(names)
        return []

    def _call(self, n, f, fc, fresh, in_oxml, in_model, evs):
        T, M = self.T, self.M
        fn = n.func
        if isinstance(fn, ast.Name) and fn.id == "getattr" and len(n.args) >= 2 and not isinstance(n.args[1], ast.Constant):
            # getattr(x, <name>): reads the property each possible name denotes on x
            bt0 = T.expr(n.args[0], fc)
            for nm in self._getattr_names(f, n.args[1]):
                for a in bt0:
                    if a[0] == "inst":
                        g = self.prog.lookup(a[1], nm)
                        if g is not None and g.kind in ("property", "lazyproperty"):
                            evs.append(Event(PURE, "property (getattr %r)" % nm, f.file, n.lineno, callee=g))
            return
        # lxml module-level functions that rewrite the tree they are given (namespace declarations, attributes, elements)
        d_ = dotted(fn) or ""
        if d_.split(".")[-1] in LXML_TREE_FUNCS and (d_.startswith(("etree.", "lxml.", "objectify.")) or "." not in d_) and n.args:
            if self._root_name(n.args[0]) not in fresh:
                evs.append(Event(WRITES, "%s() rewrites the tree of %s" % (d_, ast.unparse(n.args[0])), f.file, n.lineno))
                return
        if isinstance(fn, ast.Attribute):
            root = self._root_name(fn.value)
            recv_fresh = root in fresh
            if isinstance(fn.value, ast.Call):
                ct = T.expr(fn.value.func, fc)
                if ct and all(a[0] == "class" for a in ct):
                    recv_fresh = True  # method invoked on a just-constructed object
            meth = fn.attr
            if isinstance(fn.value, ast.Call) and dotted(fn.value.func) == "super" and f.cls is not None:
                g = self.prog.lookup(f.cls, meth, after=f.cls)
                if g is not None:
                    evs.append(Event(PURE, "super call", f.file, n.lineno, callee=g))
                return
            bt = T.expr(fn.value, fc)
            # lxml tree mutators on elements
            if meth in LXML_MUTATORS and self._elem_like(bt) and not recv_fresh:
                explicit = [a for a in bt if a[0] == "inst" and self.prog.lookup(a[1], meth) is not None
                            and self.prog.lookup(a[1], meth).cls.name != "BaseOxmlElement"]
                if not explicit:
                    evs.append(Event(WRITES, "%s() on an element (%s)" % (meth, ast.unparse(fn.value)), f.file, n.lineno))
                    return
            if meth in ("pop", "append", "clear", "update", "remove", "setdefault", "__setitem__") and in_model \
                    and isinstance(fn.value, ast.Attribute) and dotted(fn.value.value) == "self" and f.name != "__init__" \
                    and not self._elem_like(bt):
                evs.append(Event(WRITES, "%s() on %s.%s" % (meth, f.cls.name, fn.value.attr), f.file, n.lineno))
                return
            ft = T.member(bt, meth, fc, node=fn)
            handled = False
            for a in ft:
                if a[0] == "gen":
                    handled = True
                    if recv_fresh:
                        continue
                    kind, decl, tag = a[1], a[2], a[3]
                    owners = [x[1] for x in bt if x[0] == "inst" and M.is_oxml_class(x[1])
                              and decl.cls in self.prog.mro(x[1])] or [decl.cls]
                    if kind == "new":
                        continue
                    if kind == "get_or_add":
                        lvl = ADDS_EMPTY if all(self.creates_empty_container(decl, tag, o) for o in owners) else WRITES
                        evs.append(Event(lvl, "%s() on %s (%s)" % (meth, "/".join(o.name for o in owners), tag), f.file, n.lineno,
                                         neutral=all(self.valid_when_created(decl, tag, o) for o in owners)))
                    else:
                        evs.append(Event(WRITES, "%s() on %s" % (meth, "/".join(o.name for o in owners)), f.file, n.lineno))
                elif a[0] == "func":
                    handled = True
                    ev = Event(PURE, "call", f.file, n.lineno, callee=a[1],
                               imprecise=bool(T.fallback_used.get(id(fn)) and len(T.fallback_used[id(fn)]) > 1))
                    if recv_fresh and a[1].cls is not None and a[1].kind == "method":
                        # method of a fresh (just created) object: its effects on that object are not document effects
                        ev.fresh = True
                    evs.append(ev)
                    # virtual dispatch (class-hierarchy analysis): `self.m()` in a method of C may run an override of m
                    # defined in a subclass of C that inherits the calling method
                    if isinstance(fn.value, ast.Name) and fn.value.id in ("self", "cls") and f.cls is not None \
                            and a[1].cls is not None and not recv_fresh:
                        for sub in self.prog.subclasses(f.cls):
                            g = sub.methods.get(meth)
                            if g is None or g is a[1] or g.kind != a[1].kind:
                                continue
                            if self.prog.lookup(sub, f.name) is not f:
                                continue  # the subclass overrides the caller as well
                            evs.append(Event(PURE, "call (override in %s)" % sub.name, f.file, n.lineno, callee=g))
                elif a[0] == "class":
                    handled = True
                    for g in (self.prog.lookup(a[1], "__init__"), self.prog.lookup(a[1], "__new__")):
                        if g is not None:
                            evs.append(Event(PURE, "constructor", f.file, n.lineno, callee=g))
                elif a[0] == "ext":
                    handled = True
            if not handled and not ft and isinstance(fn.value, ast.Name) and fn.value.id in ("self", "cls") and f.cls is not None:
                # abstract-method pattern: defined only in subclasses
                subs = [g for c in self.prog.subclasses(f.cls) for g in [c.methods.get(meth)] if g is not None]
                if subs:
                    for g in subs:
                        evs.append(Event(PURE, "call (subclass hook)", f.file, n.lineno, callee=g))
                    return
            if not handled and not ft:
                if bt and all(a[0] in ("prim", "list", "tuple", "ext") for a in bt):
                    return
                # unresolved receiver: by-name over the repo (imprecise)
                cands = [g for g in self._byname.get(meth, []) if g.cls is not None]
                if cands:
                    self.unresolved.append((f, n, ast.unparse(fn)))
                    for g in cands:
                        evs.append(Event(PURE, "call (by name)", f.file, n.lineno, callee=g, imprecise=True))
                elif meth.startswith(("get_or_add_", "_add_", "_insert_", "_remove_", "get_or_change_to_", "add_")):
                    self.unresolved.append((f, n, ast.unparse(fn)))
                    evs.append(Event(WRITES, "%s() on an unknown receiver" % meth, f.file, n.lineno, imprecise=True))
            return
        # plain-name calls
        ft = T.expr(fn, fc)
        for a in ft:
            if a[0] == "func":
                evs.append(Event(PURE, "call", f.file, n.lineno, callee=a[1]))
            elif a[0] == "class":
                for g in (self.prog.lookup(a[1], "__init__"), self.prog.lookup(a[1], "__new__")):
                    if g is not None:
                        evs.append(Event(PURE, "constructor", f.file, n.lineno, callee=g))

    # -- fixpoint ----------------------------------------------------------------------------------
    def _fixpoint(self):
        for f in self.funcs:
            lvl, wit = PURE, None
            for e in self.events[f]:
                if e.callee is None and e.level > lvl:
                    lvl, wit = e.level, e
            self.summary[f] = lvl
            self.witness[f] = wit
            self.relevant[f] = any(e.callee is None and e.level == WRITES and not e.neutral for e in self.events[f])
        changed = True
        while changed:
            changed = False
            for f in self.funcs:
                if not self.relevant[f] and any(e.callee is not None and not e.fresh and self.relevant.get(e.callee) for e in self.events[f]):
                    self.relevant[f] = True
                    changed = True
        for f in self.funcs:
            self.nonself[f] = max([e.level for e in self.events[f] if e.callee is None and not e.self_rooted] or [PURE])
        changed = True
        rounds = 0
        while changed:
            changed = False
            rounds += 1
            for f in self.funcs:
                lvl = self.summary[f]
                ns = self.nonself[f]
                for e in self.events[f]:
                    if e.callee is not None:
                        full = self.summary.get(e.callee, PURE)
                        part = self.nonself.get(e.callee, PURE)
                        cl = part if e.fresh else full
                        if cl > lvl:
                            lvl = cl
                            self.witness[f] = e
                        cn = part if (e.fresh or e.self_rooted) else full
                        if cn > ns:
                            ns = cn
                if lvl != self.summary[f] or ns != self.nonself[f]:
                    self.summary[f] = lvl
                    self.nonself[f] = ns
                    changed = True
            if rounds > 60:
                raise AnalysisError("effect fixpoint did not converge")
        self.rounds = rounds

    def path(self, f, limit=8):
        """Witness chain for the summary of f: list of 'qualname:line what'."""
        out = []
        seen = set()
        imprecise = False
        while f is not None and f not in seen and len(out) < limit:
            seen.add(f)
            w = self.witness.get(f)
            if w is None:
                break
            imprecise = imprecise or w.imprecise
            if w.callee is None:
                out.append("%s:%d %s" % (f.qualname, w.line, w.what))
                break
            out.append("%s:%d -> %s" % (f.qualname, w.line, w.callee.qualname))
            f = w.callee
        return out, imprecise


    # -- per-statement levels and may-precede analysis ---------------------------------------------
    def node_level(self, f, stmt):
        """Max effect level of the events located inside statement/expression `stmt` of f."""
        inside = {id(x) for x in ast.walk(stmt)}
        lvl, wit = PURE, None
        for e in self.events[f]:
            if e.node is not None and id(e.node) in inside:
                if self.relevant_only:
                    if e.callee is None:
                        l = WRITES if (e.level == WRITES and not e.neutral) else PURE
                    else:
                        l = WRITES if self.relevant.get(e.callee) else PURE
                else:
                    l = e.level if e.callee is None else self.summary.get(e.callee, PURE)
                if l > lvl:
                    lvl, wit = l, e
        return lvl, wit

    relevant_only = False

    def effects_before_raise(self, f, min_level=ADDS_EMPTY, relevant_only=False, refusal_pred=None):
        """[(raise node, [(stmt, level, Event)...])] for raises reachable after an effect on some path.
        With relevant_only, only validity-relevant mutations count."""
        out = []
        self.relevant_only = relevant_only

        def simple_level(st):
            return self.node_level(f, st)

        def block(stmts, inset):
            cur = list(inset)
            for st in stmts:
                cur, live = stmt(st, cur)
                if not live:
                    return cur, False
            return cur, True

        def note(expr_or_stmt, cur):
            lvl, wit = simple_level(expr_or_stmt)
            if lvl >= min_level:
                return cur + [(expr_or_stmt, lvl, wit)]
            return cur

        def stmt(st, cur):
            if isinstance(st, ast.Raise):
                if cur:
                    out.append((st, list(cur)))
                return cur, False
            if isinstance(st, ast.Return):
                return cur, False
            if isinstance(st, (ast.Continue, ast.Break)):
                return cur, False
            if isinstance(st, ast.If):
                c0 = note(st.test, cur)
                a, la = block(st.body, c0)
                b, lb = block(st.orelse, c0)
                res = []
                if la:
                    res += a
                if lb:
                    res += [x for x in b if x not in res]
                return res, (la or lb)
            if isinstance(st, (ast.For, ast.While)):
                c0 = note(st.iter if isinstance(st, ast.For) else st.test, cur)
                a, _ = block(st.body, c0)
                a2, _ = block(st.body, a + [x for x in c0 if x not in a])  # back edge
                res = c0 + [x for x in a2 if x not in c0]
                b, lb = block(st.orelse, res) if st.orelse else (res, True)
                return b, True
            if isinstance(st, ast.Try):
                a, la = block(st.body, cur)
                res = list(a) if la else []
                for h in st.handlers:
                    hb, lh = block(h.body, a + [x for x in cur if x not in a])
                    if lh:
                        res += [x for x in hb if x not in res]
                if st.finalbody:
                    res, lf = block(st.finalbody, res)
                    return res, lf
                return res, (la or any(True for _ in st.handlers))
            if isinstance(st, ast.With):
                c0 = cur
                for it in st.items:
                    c0 = note(it.context_expr, c0)
                return block(st.body, c0)
            if isinstance(st, (ast.FunctionDef, ast.AsyncFunctionDef, ast.ClassDef)):
                return cur, True
            if refusal_pred is not None and cur and refusal_pred(st):
                out.append((st, list(cur)))     # a statement that can refuse (in a callee), reached after an effect
            return note(st, cur), True

        block(f.node.body, [])
        return out
