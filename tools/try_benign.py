#!/venv/bin/python
"""Apply a behaviour-preserving change to /repo, run every claimed check (quick, no evidence written) in parallel, report
every non-zero exit, restore /repo.   tools/try_benign.py <dir-with-patch.diff> [--tests]"""
import json
import os
import subprocess
import sys
from concurrent.futures import ThreadPoolExecutor

HERE = os.path.dirname(os.path.dirname(os.path.abspath(__file__)))
REPO = "/repo"


def sh(cmd, **kw):
    return subprocess.run(cmd, shell=True, capture_output=True, text=True, **kw)


def main():
    d = sys.argv[1]
    if sh("git -C %s status --porcelain" % REPO).stdout.strip():
        print("refusing: /repo is dirty")
        return 2
    m = json.load(open(os.path.join(HERE, "MANIFEST.json")))
    ids = sorted(c["property_id"] for c in m["checks"])
    r = sh("git -C %s apply %s" % (REPO, os.path.abspath(os.path.join(d, "patch.diff"))))
    if r.returncode:
        print("patch does not apply:", r.stderr.strip())
        return 2
    try:
        env = dict(os.environ, VERIF_NOWRITE="1")
        if "--tests" in sys.argv:
            t = sh("cd /repo && /venv/bin/python -m pytest -q -p no:cacheprovider --timeout=900 --continue-on-collection-errors 2>&1 | tail -1")
            print("tests:", t.stdout.strip())

        def run(i):
            r = subprocess.run(["/venv/bin/python", "check", i, "--tier", "quick"], cwd=HERE, capture_output=True, text=True, env=env)
            return i, r.returncode, r.stdout + r.stderr
        bad = 0
        with ThreadPoolExecutor(16) as ex:
            for i, code, out in ex.map(run, ids):
                if code != 0:
                    bad += 1
                    lines = [l for l in out.splitlines() if not l.startswith("KNOWN-FINDING")]
                    print("  %s exit %d" % (i, code))
                    for l in lines[:6]:
                        print("     " + l[:330])
        print("%s: %d of %d checks alarmed" % (os.path.basename(d.rstrip("/")), bad, len(ids)))
        return 1 if bad else 0
    finally:
        sh("git -C %s checkout -- ." % REPO)
        sh("git -C %s clean -fdq src" % REPO)


if __name__ == "__main__":
    sys.exit(main())
