"""Repo-specific type inference over the program model (part of engine A).

Types are frozensets of atoms:
  ("inst", ClassInfo)   instance of a repo class (oxml element classes included)
  ("class", ClassInfo)  the class object
  ("prim", name)        str/int/float/bool/bytes/dict/set/NoneType/object ...
  ("list", T)           any iterable/sequence of T (list, tuple, iterator, generator)
  ("tuple", (T, ...))   fixed tuple
  ("func", FuncInfo)    a function or bound method
  ("gen", kind, ChildDecl, tag)  generated xmlchemy method
  ("ext", dotted)       value from a non-repo module
  ("lxml",)             an lxml element of unknown class
The empty set means unknown.
"""

from __future__ import annotations

import ast
import re

from .pysrc import ClassInfo, FuncInfo, Module, dotted
from .xmlchemy_model import choice_prop, generated_names

EMPTY = frozenset()
NONE = frozenset([("prim", "NoneType")])
STR = frozenset([("prim", "str")])
INT = frozenset([("prim", "int")])
FLOAT = frozenset([("prim", "float")])
BOOL = frozenset([("prim", "bool")])
BYTES = frozenset([("prim", "bytes")])
LXML = frozenset([("lxml",)])

_SEQ_GENERICS = {"list", "List", "Iterator", "Iterable", "Sequence", "Generator", "Collection", "Set",
                 "FrozenSet", "set", "frozenset", "MutableSequence", "Deque"}
_PRIM_NAMES = {"str": "str", "int": "int", "float": "float", "bool": "bool", "bytes": "bytes",
               "dict": "dict", "Dict": "dict", "Mapping": "dict", "object": "object", "Any": None,
               "Length": "int", "Emu": "int", "IO": "file", "None": "NoneType"}
_LAST_STEP = re.compile(r"([A-Za-z_][\w]*:[A-Za-z_][\w]*)\s*(\[[^\]]*\])*\s*$")


def inst(c):
    return frozenset([("inst", c)])


def lst(t):
    return frozenset([("list", t)])


class FCtx:
    """Function context: the function and the class `self` is taken to be."""

    __slots__ = ("fn", "selfcls", "module")

    def __init__(self, fn, selfcls=None):
        self.fn = fn
        self.selfcls = selfcls if selfcls is not None else (fn.cls if fn is not None else None)
        self.module = fn.module if fn is not None else None

    def key(self):
        return (self.fn, self.selfcls)


class Types:
    def __init__(self, prog, model):
        self.prog = prog
        self.M = model
        self.param_types = {}  # (FuncInfo, name) -> T (inferred from call sites)
        self._locals = {}
        self._ret = {}
        self._field = {}
        self._in_ret = set()
        self._in_field = set()
        self._in_local = set()
        self._oxidx = None
        self._roots = {}
        self.hints = {}
        try:
            import json
            import os

            from .report import VERIF

            with open(os.path.join(VERIF, "hints.json")) as fh:
                self.hints = json.load(fh).get("types", {})
        except Exception:  # noqa: BLE001
            self.hints = {}
        self.fallback_used = {}
        self.length_cls = None
        u = prog.modules.get("pptx.util")
        if u and "Length" in u.classes:
            self.length_cls = u.classes["Length"]
        self._fixpoint()

    # -- annotation -> type ----------------------------------------------------------------------
    def ann(self, node, module, selfcls=None):
        if node is None:
            return EMPTY
        if isinstance(node, ast.Constant):
            if node.value is None:
                return NONE
            if isinstance(node.value, str):
                try:
                    return self.ann(ast.parse(node.value, mode="eval").body, module, selfcls)
                except SyntaxError:
                    return EMPTY
            return EMPTY
        if isinstance(node, ast.BinOp) and isinstance(node.op, ast.BitOr):
            return self.ann(node.left, module, selfcls) | self.ann(node.right, module, selfcls)
        if isinstance(node, ast.Subscript):
            base = dotted(node.value) or ""
            base = base.split(".")[-1]
            sl = node.slice
            if base in _SEQ_GENERICS:
                if isinstance(sl, ast.Tuple):
                    sl = sl.elts[0]
                return lst(self.ann(sl, module, selfcls))
            if base in ("Optional",):
                return self.ann(sl, module, selfcls) | NONE
            if base in ("Union",):
                out = EMPTY
                for e in (sl.elts if isinstance(sl, ast.Tuple) else [sl]):
                    out |= self.ann(e, module, selfcls)
                return out
            if base in ("tuple", "Tuple"):
                elts = sl.elts if isinstance(sl, ast.Tuple) else [sl]
                if len(elts) == 2 and isinstance(elts[1], ast.Constant) and elts[1].value is Ellipsis:
                    return lst(self.ann(elts[0], module, selfcls))
                return frozenset([("tuple", tuple(self.ann(e, module, selfcls) for e in elts))])
            if base in ("Type", "type"):
                t = self.ann(sl, module, selfcls)
                return frozenset(("class", a[1]) for a in t if a[0] == "inst")
            if base in ("dict", "Dict", "Mapping"):
                return frozenset([("prim", "dict")])
            if base == "Callable":
                return EMPTY
            if base in ("IO",):
                return frozenset([("prim", "file")])
            return self.ann(node.value, module, selfcls)
        d = dotted(node)
        if d is None:
            return EMPTY
        last = d.split(".")[-1]
        if last == "Self" and selfcls is not None:
            return inst(selfcls)
        if d in _PRIM_NAMES or last in _PRIM_NAMES:
            p = _PRIM_NAMES.get(d, _PRIM_NAMES.get(last))
            r = self.prog.resolve(module, d)
            if isinstance(r, ClassInfo):
                if r.name in ("Length", "Emu"):
                    return INT
                return inst(r)
            return frozenset([("prim", p)]) if p else EMPTY
        r = self.prog.resolve(module, d)
        if isinstance(r, ClassInfo):
            if self.length_cls is not None and self.length_cls in self.prog.mro(r):
                return INT
            return inst(r)
        if isinstance(r, tuple) and r[0] == "expr":
            # type alias: X = Union[A, B] / "A | B"
            return self.ann(r[2], r[1], selfcls)
        if isinstance(r, tuple) and r[0] == "ext":
            if r[1].endswith("ElementBase") or r[1].endswith("_Element"):
                return LXML
            return frozenset([("ext", r[1])])
        return EMPTY

    # -- fixpoint over call sites for unannotated parameters -------------------------------------
    def _fixpoint(self):
        funcs = list(self.prog.all_functions())
        for it in range(6):
            changed = False
            self._locals.clear()
            self._ret.clear()
            self._field.clear()
            for f in funcs:
                fc = FCtx(f)
                for n in ast.walk(f.node):
                    if isinstance(n, ast.Call):
                        if self._record_call(n, fc):
                            changed = True
            if not changed:
                break
        self._locals.clear()
        self._ret.clear()
        self._field.clear()
        self.passes = it + 1

    def _record_call(self, call, fc):
        changed = False
        cs = list(self.callees(call, fc))
        # virtual dispatch: arguments of `self.m(...)` also reach overrides of m in subclasses
        fn = call.func
        if isinstance(fn, ast.Attribute) and isinstance(fn.value, ast.Name) and fn.value.id in ("self", "cls") and fc.fn.cls is not None:
            for callee, skip_self in list(cs):
                if isinstance(callee, FuncInfo) and callee.cls is not None:
                    for sub in self.prog.subclasses(fc.fn.cls):
                        g = sub.methods.get(fn.attr)
                        if g is not None and g is not callee and g.kind == callee.kind:
                            cs.append((g, skip_self))
        for callee, skip_self in cs:
            if not isinstance(callee, FuncInfo):
                continue
            params = callee.params
            if skip_self and params:
                params = params[1:]
            a = callee.node.args
            for i, arg in enumerate(call.args):
                if isinstance(arg, ast.Starred) or i >= len(params):
                    break
                changed |= self._join_param(callee, params[i], arg, fc)
            names = set(params) | {x.arg for x in a.kwonlyargs}
            for kw in call.keywords:
                if kw.arg and kw.arg in names:
                    changed |= self._join_param(callee, kw.arg, kw.value, fc)
        return changed

    def _join_param(self, callee, pname, argexpr, fc):
        if self._param_annotation(callee, pname) is not None:
            return False
        t = self.expr(argexpr, fc)
        if not t:
            return False
        key = (callee, pname)
        old = self.param_types.get(key, EMPTY)
        new = old | t
        if len(new) > 12:
            return False
        if new != old:
            self.param_types[key] = new
            return True
        return False

    def _param_annotation(self, fn, pname):
        a = fn.node.args
        for x in a.posonlyargs + a.args + a.kwonlyargs:
            if x.arg == pname:
                return x.annotation
        return None

    # -- callee resolution -----------------------------------------------------------------------
    def callees(self, call, fc):
        """[(FuncInfo|('gen',...)|ClassInfo, skip_self)] for a call node."""
        out = []
        ft = self.expr(call.func, fc)
        for a in ft:
            if a[0] == "func":
                f = a[1]
                skip = f.cls is not None and f.kind not in ("staticmethod",) and not (
                    isinstance(call.func, ast.Attribute) and self._is_class_expr(call.func.value, fc)
                    and f.kind == "method")
                out.append((f, skip))
            elif a[0] == "class":
                init = self.prog.lookup(a[1], "__init__")
                new = self.prog.lookup(a[1], "__new__")
                if init is not None:
                    out.append((init, True))
                if new is not None:
                    out.append((new, True))
            elif a[0] == "gen":
                out.append((a, False))
        return out

    def _is_class_expr(self, e, fc):
        t = self.expr(e, fc)
        return bool(t) and all(a[0] == "class" for a in t)

    # -- member lookup on a type -----------------------------------------------------------------
    def member(self, t, name, fc=None, node=None):
        out = EMPTY
        if not t or all(a[0] == "lxml" or (a[0] == "inst" and a[1].name == "BaseOxmlElement")
                        or a == ("prim", "NoneType") for a in t):
            fb = self._oxml_fallback(name, known_elem=bool(t))
            if fb is not None:
                cands, ft = fb
                if node is not None:
                    self.fallback_used[id(node)] = cands
                return ft
        for a in t:
            if a[0] == "inst":
                out |= self._inst_member(a[1], name)
            elif a[0] == "class":
                out |= self._class_member(a[1], name)
            elif a[0] == "prim":
                out |= self._prim_member(a[1], name)
            elif a[0] == "list":
                if name in ("append", "extend", "insert", "sort", "reverse", "remove", "pop", "index", "count"):
                    out |= frozenset([("ext", "list." + name)])
            elif a[0] == "lxml":
                out |= self._lxml_member(name)
        return out

    def _oxml_index(self):
        if self._oxidx is None:
            idx = {}
            non = set()
            for c in self.prog.all_classes():
                if self.M.is_oxml_class(c):
                    if c.name == "BaseOxmlElement":
                        continue
                    for n in c.methods:
                        idx.setdefault(n, set()).add(c)
                    ch, at = self.M.own_decls(c)
                    for d in at:
                        idx.setdefault(d.prop, set()).add(c)
                    for d in ch:
                        if d.kind == "ZeroOrOneChoice":
                            idx.setdefault(d.prop, set()).add(c)
                            idx.setdefault("_remove_" + d.prop, set()).add(c)
                            for tag in d.tags:
                                p = choice_prop(tag)
                                idx.setdefault(p, set()).add(c)
                                for g in generated_names(d.kind, p):
                                    idx.setdefault(g, set()).add(c)
                        else:
                            if d.kind in ("ZeroOrOne", "OneAndOnlyOne"):
                                idx.setdefault(d.prop, set()).add(c)
                            else:
                                idx.setdefault(d.prop + "_lst", set()).add(c)
                            for g in generated_names(d.kind, d.prop):
                                idx.setdefault(g, set()).add(c)
                else:
                    for n in list(c.methods) + list(c.attrs) + list(c.annotations):
                        non.add(n)
            self._oxidx = (idx, non)
        return self._oxidx

    def _oxml_fallback(self, name, known_elem):
        """Name-based member lookup over the oxml layer for receivers whose class is unknown
        (engine A resolution rules 4/5).  Only names that are specific to the oxml layer qualify
        when the receiver is not even known to be an element."""
        idx, non = self._oxml_index()
        cands = idx.get(name)
        if not cands:
            return None
        if not known_elem and name in non:
            return None
        if name in ("text", "xml", "tag", "get", "set", "attrib", "append", "remove", "insert", "index"):
            return None
        # keep the most-derived definitions only once per defining class
        out = EMPTY
        for c in sorted(cands, key=lambda x: x.fq):
            out |= self._inst_member(c, name)
        return (sorted(c.name for c in cands), out)

    def _lxml_member(self, name):
        if name in ("getparent",):
            return frozenset([("ext", "lxml.getparent")])
        if name in ("tag", "text", "tail"):
            return STR | NONE
        if name in ("attrib",):
            return frozenset([("prim", "dict")])
        return frozenset([("ext", "lxml." + name)])

    def _prim_member(self, p, name):
        if p == "str":
            return frozenset([("ext", "str." + name)])
        if p == "dict":
            return frozenset([("ext", "dict." + name)])
        return frozenset([("ext", "%s.%s" % (p, name))])

    def _class_member(self, c, name):
        f = self.prog.lookup(c, name)
        if f is not None:
            if f.kind in ("property", "lazyproperty"):
                return EMPTY
            return frozenset([("func", f)])
        if self.prog.is_enum(c):
            for m in self.prog._enum_members_mro(c):
                if m.name == name:
                    return inst(c)
        a = self.prog.lookup_attr(c, name)
        if a is not None:
            return self.expr(a[1], FCtx(None, a[0]), module=a[0].module)
        return EMPTY

    def _inst_member(self, c, name):
        prog = self.prog
        for k in prog.mro(c):
            if name in k.methods:
                f = k.methods[name]
                if f.kind in ("property", "lazyproperty"):
                    return self.ret(f, c)
                return frozenset([("func", f)])
            # xmlchemy declarations made in this class
            if self.M.is_oxml_class(k):
                t = self._decl_member(c, k, name)
                if t is not None:
                    return t
            if name in k.annotations and name not in k.attrs:
                return self.ann(k.annotations[name], k.module, c)
        ft = self.field(c, name)
        if ft:
            return ft
        if self.M.is_oxml_class(c):
            return self._lxml_member(name)
        if self.prog.is_enum(c):
            if name == "xml_value":
                return STR | NONE
            if name in ("value",):
                return INT
            if name == "name":
                return STR
        for b in prog.ext_bases(c):
            if b in ("str", "int", "float", "list", "dict"):
                return self._prim_member(b, name)
        # class-level attribute
        a = prog.lookup_attr(c, name)
        if a is not None:
            return self.expr(a[1], FCtx(None, a[0]), module=a[0].module)
        return EMPTY

    def _decl_member(self, c, k, name):
        childs, attrs = self.M.own_decls(k)
        for d in attrs:
            if d.prop == name:
                return self._attr_type(d)
        for d in childs:
            if d.kind == "ZeroOrOneChoice":
                if name == d.prop:
                    out = NONE
                    for tag in d.tags:
                        out |= self._tag_type(tag)
                    return out
                for tag in d.tags:
                    p = choice_prop(tag)
                    if name == p:
                        return self._tag_type(tag) | NONE
                    g = generated_names(d.kind, p).get(name)
                    if g:
                        return frozenset([("gen", g, d, tag)])
                if name == "_remove_" + d.prop:
                    return frozenset([("gen", "remove_group", d, None)])
                continue
            tag = d.tags[0]
            if name == d.prop:
                if d.kind in ("ZeroOrOne",):
                    return self._tag_type(tag) | NONE
                if d.kind == "OneAndOnlyOne":
                    return self._tag_type(tag)
                return None  # ZeroOrMore/OneOrMore delete the attribute
            if name == d.prop + "_lst" and d.kind in ("ZeroOrMore", "OneOrMore"):
                return lst(self._tag_type(tag))
            g = generated_names(d.kind, d.prop).get(name)
            if g:
                return frozenset([("gen", g, d, tag)])
        return None

    def _tag_type(self, tag):
        c = self.M.class_for_tag(tag)
        return inst(c) if c is not None else LXML

    def _attr_type(self, d):
        from .pysrc import ClassRef

        out = EMPTY
        if isinstance(d.st, ClassRef):
            st = d.st.cls
            if self.prog.is_enum(st):
                out = inst(st)
            else:
                cf = self.prog.lookup(st, "convert_from_xml")
                r = self.ann(cf.node.returns, cf.module) if cf is not None and cf.node.returns else EMPTY
                if not r:
                    n = st.name
                    if "Boolean" in n:
                        r = BOOL
                    elif any(x in n for x in ("String", "Token", "Uri", "Id", "Type", "Extension", "Lang", "Typeface", "Ref")):
                        r = STR
                    elif any(x in n for x in ("Double", "Percent", "Angle")):
                        r = FLOAT
                    else:
                        r = INT
                out = r
        if d.kind == "OptionalAttribute":
            if d.default is None:
                out |= NONE
        return out

    # -- fields ----------------------------------------------------------------------------------
    def field(self, c, name):
        key = (c, name)
        if key in self._field:
            return self._field[key]
        if key in self._in_field:
            return EMPTY
        self._in_field.add(key)
        out = EMPTY
        try:
            for k in self.prog.mro(c):
                h = self.hints.get("%s.%s" % (k.name, name))
                if h:
                    for spec in h["types"]:
                        mod, _, cn = spec.partition(":")
                        m = self.prog.modules.get(mod)
                        if m is not None and cn in m.classes:
                            out |= inst(m.classes[cn])
                if name in k.annotations:
                    out |= self.ann(k.annotations[name], k.module, c)
                # element types of list-valued fields: self.<name>.append(x)
                for f in list(k.methods.values()) + list(k.setters.values()):
                    for n in ast.walk(f.node):
                        if isinstance(n, ast.Call) and isinstance(n.func, ast.Attribute) and n.func.attr in ("append", "add") \
                                and dotted(n.func.value) == "self." + name and n.args:
                            et = self.expr(n.args[0], FCtx(f, c))
                            if et:
                                out |= lst(et)
                for f in list(k.methods.values()) + list(k.setters.values()):
                    for n in ast.walk(f.node):
                        tgt = None
                        val = None
                        if isinstance(n, ast.Assign):
                            for t in n.targets:
                                if isinstance(t, ast.Attribute) and dotted(t) == "self." + name:
                                    tgt, val = t, n.value
                                elif isinstance(t, ast.Tuple):
                                    for i, e in enumerate(t.elts):
                                        if isinstance(e, ast.Attribute) and dotted(e) == "self." + name:
                                            vt = self.expr(n.value, FCtx(f, c))
                                            for a in vt:
                                                if a[0] == "tuple" and i < len(a[1]):
                                                    out |= a[1][i]
                        elif isinstance(n, ast.AnnAssign) and isinstance(n.target, ast.Attribute) \
                                and dotted(n.target) == "self." + name:
                            out |= self.ann(n.annotation, k.module, c)
                            continue
                        if tgt is not None:
                            out |= self.expr(val, FCtx(f, c))
        finally:
            self._in_field.discard(key)
        self._field[key] = out
        return out

    # -- return types ----------------------------------------------------------------------------
    def ret(self, f, selfcls=None):
        selfcls = selfcls or f.cls
        key = (f, selfcls)
        if key in self._ret:
            return self._ret[key]
        if key in self._in_ret:
            return EMPTY
        self._in_ret.add(key)
        try:
            out = EMPTY
            h = self.hints.get("%s()" % f.qualname)
            if h:
                for spec in h["types"]:
                    mod, _, cn = spec.partition(":")
                    m = self.prog.modules.get(mod)
                    if m is not None and cn in m.classes:
                        out |= inst(m.classes[cn])
                if h.get("optional"):
                    out |= NONE
                self._ret[key] = out
                return out
            if f.node.returns is not None:
                out = self.ann(f.node.returns, f.module, selfcls)
                if any(a[0] == "list" for a in out) and _is_generator(f.node):
                    pass
            if not out:
                fc = FCtx(f, selfcls)
                ys = []
                for n in _walk_own(f.node):
                    if isinstance(n, ast.Return) and n.value is not None:
                        out |= self.expr(n.value, fc)
                    elif isinstance(n, ast.Yield) and n.value is not None:
                        ys.append(n.value)
                    elif isinstance(n, ast.YieldFrom):
                        out |= self.expr(n.value, fc)
                if ys:
                    e = EMPTY
                    for y in ys:
                        e |= self.expr(y, fc)
                    out |= lst(e)
        finally:
            self._in_ret.discard(key)
        self._ret[key] = out
        return out

    # -- locals ----------------------------------------------------------------------------------
    def locals(self, fc):
        key = fc.key()
        if key in self._locals:
            return self._locals[key]
        if key in self._in_local:
            return {}
        self._in_local.add(key)
        env = {}
        self._locals[key] = env  # provisional (supports self-reference)
        try:
            f = fc.fn
            a = f.node.args
            allp = a.posonlyargs + a.args + a.kwonlyargs
            for i, x in enumerate(allp):
                if i == 0 and f.cls is not None and f.kind != "staticmethod" and x in (a.posonlyargs + a.args)[:1]:
                    if f.kind == "classmethod":
                        env[x.arg] = frozenset([("class", fc.selfcls)])
                    else:
                        env[x.arg] = inst(fc.selfcls)
                    continue
                if x.annotation is not None:
                    env[x.arg] = self.ann(x.annotation, f.module, fc.selfcls)
                else:
                    env[x.arg] = self.param_types.get((f, x.arg), EMPTY)
            if a.vararg:
                env[a.vararg.arg] = lst(self.ann(a.vararg.annotation, f.module, fc.selfcls)
                                        if a.vararg.annotation else EMPTY)
            if a.kwarg:
                env[a.kwarg.arg] = frozenset([("prim", "dict")])
            # sweep to a fixpoint (bounded): later assignments may feed earlier uses in loops
            nodes = list(_walk_own(f.node))
            for _ in range(5):
                before = dict(env)
                for n in nodes:
                    self._bind_stmt(n, env, fc)
                if env == before:
                    break
        finally:
            self._in_local.discard(key)
        return env

    def _bind_stmt(self, n, env, fc):
        if isinstance(n, ast.Assign):
            vt = self.expr(n.value, fc)
            for t in n.targets:
                self._bind_target(t, vt, env)
        elif isinstance(n, ast.AnnAssign) and isinstance(n.target, ast.Name):
            env[n.target.id] = env.get(n.target.id, EMPTY) | self.ann(n.annotation, fc.module, fc.selfcls)
        elif isinstance(n, ast.AugAssign) and isinstance(n.target, ast.Name):
            env[n.target.id] = env.get(n.target.id, EMPTY) | self.expr(n.value, fc)
        elif isinstance(n, (ast.For, ast.comprehension)):
            it = self.expr(n.iter, fc)
            self._bind_target(n.target, self.elem_of(it), env)
        elif isinstance(n, ast.With):
            for item in n.items:
                if item.optional_vars is not None:
                    self._bind_target(item.optional_vars, self.expr(item.context_expr, fc), env)
        elif isinstance(n, ast.NamedExpr):
            self._bind_target(n.target, self.expr(n.value, fc), env)
        elif isinstance(n, ast.FunctionDef) and n is not fc.fn.node:
            pass

    def _bind_target(self, t, vt, env):
        if isinstance(t, ast.Name):
            env[t.id] = env.get(t.id, EMPTY) | vt
        elif isinstance(t, (ast.Tuple, ast.List)):
            for i, e in enumerate(t.elts):
                et = EMPTY
                for a in vt:
                    if a[0] == "tuple" and i < len(a[1]):
                        et |= a[1][i]
                    elif a[0] == "list":
                        et |= a[1]
                self._bind_target(e, et, env)

    def elem_of(self, t):
        out = EMPTY
        for a in t:
            if a[0] == "list":
                out |= a[1]
            elif a[0] == "tuple":
                for x in a[1]:
                    out |= x
            elif a[0] == "inst":
                it = self.prog.lookup(a[1], "__iter__")
                if it is not None:
                    out |= self.elem_of(self.ret(it, a[1]))
                elif self.M.is_oxml_class(a[1]):
                    out |= LXML
                else:
                    gi = self.prog.lookup(a[1], "__getitem__")
                    if gi is not None:
                        out |= self.ret(gi, a[1])
            elif a[0] == "prim" and a[1] == "str":
                out |= STR
            elif a[0] == "lxml":
                out |= LXML
        return out

    # -- expressions -----------------------------------------------------------------------------
    def expr(self, e, fc, module=None):
        module = module or (fc.module if fc is not None else None)
        if e is None:
            return EMPTY
        if isinstance(e, ast.Constant):
            v = e.value
            if v is None:
                return NONE
            return frozenset([("prim", type(v).__name__)])
        if isinstance(e, ast.JoinedStr):
            return STR
        if isinstance(e, ast.Name):
            if fc is not None and fc.fn is not None:
                env = self.locals(fc)
                if e.id in env:
                    return env[e.id]
            if e.id in ("True", "False"):
                return BOOL
            if module is not None:
                r = self.prog.resolve(module, e.id)
                return self._target_type(r)
            return EMPTY
        if isinstance(e, ast.Attribute):
            d = dotted(e)
            if d and module is not None and not (fc is not None and fc.fn is not None and
                                                 d.split(".")[0] in self.locals(fc)):
                r = self.prog.resolve(module, d)
                if r is not None:
                    t = self._target_type(r)
                    if t:
                        return t
            bt = self.expr(e.value, fc, module)
            return self.member(bt, e.attr, fc, node=e)
        if isinstance(e, ast.Call):
            return self._call(e, fc, module)
        if isinstance(e, ast.Subscript):
            bt = self.expr(e.value, fc, module)
            if isinstance(e.slice, ast.Slice):
                return frozenset(a for a in bt if a[0] in ("list", "prim")) or bt
            out = EMPTY
            for a in bt:
                if a[0] == "list":
                    out |= a[1]
                elif a[0] == "tuple":
                    if isinstance(e.slice, ast.Constant) and isinstance(e.slice.value, int) and \
                            -len(a[1]) <= e.slice.value < len(a[1]):
                        out |= a[1][e.slice.value]
                    else:
                        for x in a[1]:
                            out |= x
                elif a[0] == "inst":
                    gi = self.prog.lookup(a[1], "__getitem__")
                    if gi is not None:
                        out |= self.ret(gi, a[1])
                    elif self.M.is_oxml_class(a[1]):
                        out |= LXML
                elif a[0] == "prim" and a[1] == "str":
                    out |= STR
                elif a[0] == "lxml":
                    out |= LXML
            return out
        if isinstance(e, (ast.List, ast.Set, ast.Tuple)):
            if isinstance(e, ast.Tuple):
                return frozenset([("tuple", tuple(self.expr(x, fc, module) for x in e.elts))])
            et = EMPTY
            for x in e.elts:
                et |= self.expr(x.value if isinstance(x, ast.Starred) else x, fc, module)
            return lst(et)
        if isinstance(e, (ast.ListComp, ast.GeneratorExp, ast.SetComp)):
            return lst(self.expr(e.elt, fc, module))
        if isinstance(e, (ast.Dict, ast.DictComp)):
            return frozenset([("prim", "dict")])
        if isinstance(e, ast.IfExp):
            return self.expr(e.body, fc, module) | self.expr(e.orelse, fc, module)
        if isinstance(e, ast.BoolOp):
            out = EMPTY
            for v in e.values:
                out |= self.expr(v, fc, module)
            return out
        if isinstance(e, ast.Compare):
            return BOOL
        if isinstance(e, ast.UnaryOp):
            if isinstance(e.op, ast.Not):
                return BOOL
            return self.expr(e.operand, fc, module)
        if isinstance(e, ast.BinOp):
            l = self.expr(e.left, fc, module)
            r = self.expr(e.right, fc, module)
            if isinstance(e.op, ast.Mod) and STR <= l:
                return STR
            if STR <= l or STR <= r:
                return STR
            if isinstance(e.op, ast.Div):
                return FLOAT
            if l and r and all(a[0] == "prim" for a in l | r):
                if FLOAT <= (l | r):
                    return FLOAT
                return INT
            if any(a[0] == "list" for a in l):
                return l | r
            return frozenset(a for a in (l | r) if a[0] == "prim") or EMPTY
        if isinstance(e, ast.Lambda):
            return EMPTY
        if isinstance(e, ast.Starred):
            return self.expr(e.value, fc, module)
        if isinstance(e, ast.NamedExpr):
            return self.expr(e.value, fc, module)
        if isinstance(e, ast.Await):
            return self.expr(e.value, fc, module)
        return EMPTY

    def _target_type(self, r):
        if isinstance(r, ClassInfo):
            return frozenset([("class", r)])
        if isinstance(r, FuncInfo):
            return frozenset([("func", r)])
        if isinstance(r, Module):
            return frozenset([("ext", "module:" + r.name)])
        if isinstance(r, tuple) and r[0] == "ext":
            return frozenset([("ext", r[1])])
        if isinstance(r, tuple) and r[0] == "expr":
            c = r[3] if len(r) == 4 else None
            if c is not None and self.prog.is_enum(c):
                return inst(c)
            return self.expr(r[2], FCtx(None, c), module=r[1])
        return EMPTY

    def _call(self, e, fc, module):
        fn = dotted(e.func)
        # -- special forms ------------------------------------------------------------------------
        if fn == "cast" and len(e.args) == 2:
            return self.ann(e.args[0], module, fc.selfcls if fc else None)
        if fn in ("len", "int", "ord", "id", "hash", "round", "sum", "abs") or fn in ("Emu", "Pt", "Inches", "Cm", "Mm", "Centipoints", "Length"):
            return INT
        if fn in ("str", "repr", "chr", "format"):
            return STR
        if fn == "float":
            return FLOAT
        if fn in ("bool", "isinstance", "hasattr", "callable", "any", "all", "issubclass"):
            return BOOL
        if fn == "bytes":
            return BYTES
        if fn in ("list", "tuple", "sorted", "set", "frozenset", "reversed", "iter"):
            if e.args:
                t = self.expr(e.args[0], fc, module)
                return lst(self.elem_of(t))
            return lst(EMPTY)
        if fn == "next" and e.args:
            return self.elem_of(self.expr(e.args[0], fc, module))
        if fn in ("min", "max") and e.args:
            t = self.expr(e.args[0], fc, module)
            if len(e.args) == 1:
                return self.elem_of(t)
            return t
        if fn == "enumerate" and e.args:
            return lst(frozenset([("tuple", (INT, self.elem_of(self.expr(e.args[0], fc, module))))]))
        if fn == "zip":
            return lst(frozenset([("tuple", tuple(self.elem_of(self.expr(a, fc, module)) for a in e.args))]))
        if fn in ("dict", "defaultdict", "collections.defaultdict"):
            return frozenset([("prim", "dict")])
        if fn == "getattr" and len(e.args) >= 2 and isinstance(e.args[1], ast.Constant):
            return self.member(self.expr(e.args[0], fc, module), e.args[1].value, fc)
        if fn == "super":
            return EMPTY
        if fn == "OxmlElement" and e.args:
            tag = self.prog.const(e.args[0], module)
            if isinstance(tag, str):
                return self._tag_type(tag)
            return LXML
        if fn == "parse_xml" and e.args:
            tag = self.root_tag_of(e.args[0], fc, e)
            return self._tag_type(tag) if tag else LXML
        if fn in ("parse_from_template", "etree.fromstring", "etree.SubElement"):
            return LXML
        if fn in ("qn",):
            return STR
        if isinstance(e.func, ast.Attribute) and e.func.attr == "__getitem__":
            return self.elem_of(self.expr(e.func.value, fc, module))
        if isinstance(e.func, ast.Attribute) and e.func.attr == "__len__":
            return INT
        if isinstance(e.func, ast.Attribute) and e.func.attr == "__iter__":
            return lst(self.elem_of(self.expr(e.func.value, fc, module)))
        if isinstance(e.func, ast.Attribute):
            meth = e.func.attr
            recv = e.func.value
            # super().x(...)
            if isinstance(recv, ast.Call) and dotted(recv.func) == "super" and fc is not None and fc.fn is not None \
                    and fc.fn.cls is not None:
                f = self.prog.lookup(fc.selfcls, meth, after=fc.fn.cls)
                if f is not None:
                    return self.ret(f, fc.selfcls)
                return EMPTY
            rt = self.expr(recv, fc, module)
            elem_like = any(a[0] == "lxml" or (a[0] == "inst" and self.M.is_oxml_class(a[1])) for a in rt)
            if elem_like and meth in ("xpath", "find", "findall", "getparent", "iterchildren", "getchildren",
                                      "iter", "iterancestors", "getnext", "getprevious", "first_child_found_in",
                                      "iterdescendants", "itersiblings", "getroottree", "get"):
                m = self.member(frozenset(a for a in rt if a[0] == "inst"), meth) if any(
                    a[0] == "inst" and self.prog.lookup(a[1], meth) is not None and
                    self.prog.lookup(a[1], meth).cls.name != "BaseOxmlElement" for a in rt) else None
                if not m:
                    return self._lxml_call(meth, e, fc, module, rt)
            ft = self.member(rt, meth, fc, node=e.func)
            return self._apply(ft, e, fc, module, rt)
        ft = self.expr(e.func, fc, module)
        return self._apply(ft, e, fc, module, EMPTY)

    def _apply(self, ft, e, fc, module, recv_t):
        out = EMPTY
        for a in ft:
            if a[0] == "func":
                f = a[1]
                selfcls = None
                if f.cls is not None:
                    cands = [x[1] for x in recv_t if x[0] in ("inst", "class") and f.cls in self.prog.mro(x[1])]
                    selfcls = cands[0] if len(cands) == 1 else f.cls
                out |= self.ret(f, selfcls)
            elif a[0] == "class":
                c = a[1]
                new = self.prog.lookup(c, "__new__")
                if new is not None and new.node.returns is not None:
                    out |= self.ann(new.node.returns, new.module, c)
                elif new is not None and not self.prog.is_enum(c) and self.length_cls not in self.prog.mro(c):
                    r = self.ret(new, c)
                    out |= r if r else inst(c)
                elif self.length_cls is not None and self.length_cls in self.prog.mro(c):
                    out |= INT
                else:
                    out |= inst(c)
            elif a[0] == "gen":
                kind, d, tag = a[1], a[2], a[3]
                if kind in ("new", "insert", "add", "get_or_add", "public_add", "get_or_change_to"):
                    out |= self._tag_type(tag)
                else:
                    out |= NONE
            elif a[0] == "ext":
                r = self._ext_call(a[1], e, fc, module, recv_t)
                # result of an external callable: an external object (keeps receivers of later calls 'known external')
                out |= r if r else frozenset([("ext", a[1] + "()")])
        return out

    def _ext_call(self, name, e, fc, module, recv_t):
        last = name.split(".")[-1]
        if name.startswith("str."):
            if last in ("split", "splitlines", "rsplit", "partition", "rpartition"):
                return lst(STR)
            if last in ("startswith", "endswith", "isdigit", "isalpha"):
                return BOOL
            if last in ("find", "index", "count", "rfind"):
                return INT
            if last == "encode":
                return BYTES
            return STR
        if name.startswith("dict."):
            return EMPTY
        if name == "lxml.getparent":
            return LXML
        if name in ("posixpath.split", "os.path.split", "os.path.splitext", "posixpath.splitext"):
            return frozenset([("tuple", (STR, STR))])
        if name.startswith(("posixpath.", "os.path.")):
            if last in ("exists", "isdir", "isfile", "isabs"):
                return BOOL
            return STR
        if name in ("hashlib.sha1",):
            return frozenset([("ext", "hashlib.sha1")])
        if name.endswith("hexdigest"):
            return STR
        if name in ("re.sub",):
            return STR
        if name in ("re.split",):
            return lst(STR)
        if name in ("copy.deepcopy", "deepcopy") and e.args:
            return self.expr(e.args[0], fc, module)
        if name.startswith("escape") or name.endswith(".escape") or name.endswith("quoteattr"):
            return STR
        return EMPTY

    def _lxml_call(self, meth, e, fc, module, rt):
        if meth == "xpath" and e.args:
            s = self.prog.const(e.args[0], module) if not isinstance(e.args[0], ast.JoinedStr) else None
            if isinstance(e.args[0], ast.BinOp):
                # "fmt" % args : use the format string
                s = self.prog.const(e.args[0].left, module)
            if isinstance(e.args[0], ast.JoinedStr):
                s = "".join(p.value if isinstance(p, ast.Constant) else "X" for p in e.args[0].values)
            if isinstance(s, str):
                return self.xpath_type(s)
            return lst(LXML)
        if meth in ("find", "first_child_found_in") and e.args:
            out = NONE
            for a in e.args:
                tag = self._tag_arg(a, module)
                out |= self._tag_type(tag) if tag else LXML
            return out
        if meth == "findall" and e.args:
            tag = self._tag_arg(e.args[0], module)
            return lst(self._tag_type(tag) if tag else LXML)
        if meth in ("getparent", "getnext", "getprevious"):
            return LXML | NONE
        if meth == "get":
            return STR | NONE
        if meth in ("iterchildren", "getchildren", "iter", "iterancestors", "iterdescendants", "itersiblings"):
            return lst(LXML)
        return EMPTY

    def _tag_arg(self, a, module):
        if isinstance(a, ast.Call) and dotted(a.func) == "qn" and a.args:
            v = self.prog.const(a.args[0], module)
            return v if isinstance(v, str) else None
        v = self.prog.const(a, module)
        if isinstance(v, str) and ":" in v and not v.startswith("{"):
            return v
        if isinstance(v, str) and v.startswith("{"):
            ns, l = v[1:].split("}")
            for p, u in self.prog.nsmap.items():
                if u == ns:
                    return "%s:%s" % (p, l)
        return None

    def root_tag_of(self, expr, fc, call=None):
        """Root element tag of the XML text `expr` evaluates to (abstract string evaluation of the
        enclosing function up to the call), or None."""
        key = (id(expr), fc.key() if fc is not None else None)
        if key in self._roots:
            return self._roots[key]
        self._roots[key] = None
        if fc is None or fc.fn is None:
            return None
        from .strabs import Cat, Lit, S, StrEval

        ev = StrEval(self.prog, self)
        env = {}
        body = fc.fn.node.body
        upto = len(body)
        if call is not None:
            for i, st in enumerate(body):
                if any(n is call for n in ast.walk(st)):
                    upto = i
                    break
        f = fc.fn
        params = list(f.params)
        if f.cls is not None and f.kind != "staticmethod" and params:
            env[params[0]] = ("self", fc.selfcls or f.cls)
        try:
            ev._block(body[:upto], fc, env, [])
            v = ev.eval(expr, fc, env)
        except Exception:  # noqa: BLE001
            return None
        first = None
        if isinstance(v, Lit):
            first = v.s
        elif isinstance(v, Cat) and v.items and isinstance(v.items[0], Lit):
            first = v.items[0].s
        tag = None
        if first is not None:
            m = re.match(r"\s*(?:<\?xml[^>]*\?>)?\s*<([A-Za-z_][\w]*:[A-Za-z_][\w]*)", first)
            if m:
                tag = m.group(1)
        self._roots[key] = tag
        return tag

    def xpath_type(self, s):
        s = s.strip()
        if s.startswith("count(") or s.startswith("boolean("):
            return INT
        alts = [x.strip() for x in _split_union(s)]
        out = EMPTY
        for a in alts:
            if re.search(r"/@[\w:]+\s*$", a) or re.search(r"/text\(\)\s*$", a):
                out |= STR
                continue
            m = _LAST_STEP.search(a)
            if m:
                out |= self._tag_type(m.group(1))
            else:
                out |= LXML
        return lst(out)


def _split_union(s):
    depth = 0
    cur = []
    out = []
    for ch in s:
        if ch in "[(":
            depth += 1
        elif ch in "])":
            depth -= 1
        if ch == "|" and depth == 0:
            out.append("".join(cur))
            cur = []
        else:
            cur.append(ch)
    out.append("".join(cur))
    return out


def _walk_own(fnode):
    """Walk a function body in source order without descending into nested function/class
    definitions (comprehensions and lambdas are descended into)."""
    def rec(n):
        yield n
        for c in ast.iter_child_nodes(n):
            if isinstance(c, (ast.FunctionDef, ast.AsyncFunctionDef, ast.ClassDef)):
                continue
            yield from rec(c)

    for st in fnode.body:
        if isinstance(st, (ast.FunctionDef, ast.AsyncFunctionDef, ast.ClassDef)):
            yield st
            continue
        yield from rec(st)


walk_own = _walk_own


def _is_generator(fnode):
    return any(isinstance(n, (ast.Yield, ast.YieldFrom)) for n in _walk_own(fnode))


def show(t):
    """Human-readable rendering of a type."""
    parts = []
    for a in sorted(t, key=str):
        if a[0] in ("inst", "class"):
            parts.append(("%s" if a[0] == "inst" else "type[%s]") % a[1].name)
        elif a[0] == "prim":
            parts.append(a[1])
        elif a[0] == "list":
            parts.append("list[%s]" % show(a[1]))
        elif a[0] == "tuple":
            parts.append("(%s)" % ", ".join(show(x) for x in a[1]))
        elif a[0] == "func":
            parts.append("fn:%s" % a[1].qualname)
        elif a[0] == "gen":
            parts.append("gen:%s:%s" % (a[1], a[3]))
        elif a[0] == "ext":
            parts.append("ext:%s" % a[1])
        else:
            parts.append(a[0])
    return " | ".join(parts) if parts else "?"
