#!/venv/bin/python
"""Take the seeded changes a sub-agent left under /tmp/seed-<group>-k/ into /verif/seeded/<Cnn>-<n>/ (patch.diff, demo.py, notes.txt,
meta.json with "detected_by" left for the confirmation run) and confirm each: demo passes on the pristine tree and fails with the
change, the test suite is unchanged with it, and which of the property's checks reports it.
usage: tools/ingest_seeds.py <group> [--all-checks]"""
import glob
import json
import os
import re
import shutil
import subprocess
import sys

HERE = os.path.dirname(os.path.dirname(os.path.abspath(__file__)))


def main():
    grp = sys.argv[1]
    dirs = sorted(glob.glob("/tmp/seed-%s-*" % grp), key=lambda d: int(d.rsplit("-", 1)[1]) if d.rsplit("-", 1)[1].isdigit() else 0)
    for d in dirs:
        if not os.path.exists(os.path.join(d, "patch.diff")):
            continue
        notes = open(os.path.join(d, "notes.txt")).read() if os.path.exists(os.path.join(d, "notes.txt")) else ""
        m = re.search(r"\bC\d\d\b", notes)
        if not m:
            print("no property in notes:", d)
            continue
        prop = m.group(0)
        n = 1
        while os.path.exists(os.path.join(HERE, "seeded", "%s-%d" % (prop, n))):
            n += 1
        sid = "%s-%d" % (prop, n)
        dst = os.path.join(HERE, "seeded", sid)
        os.makedirs(dst)
        for fn in ("patch.diff", "demo.py", "notes.txt"):
            if os.path.exists(os.path.join(d, fn)):
                shutil.copy(os.path.join(d, fn), os.path.join(dst, fn))
        r = subprocess.run([os.path.join(HERE, "tools", "try_seed.py"), dst, prop, "--demo", "--tests"], capture_output=True, text=True)
        out = r.stdout
        demo_ok = "demo on pristine: exit 0" in out and re.search(r"demo with patch:  exit [1-9]", out) is not None
        tests_ok = "566 passed" in out and "46 error" in out
        cm = re.search(r"check %s: exit (\d)" % prop, out)
        code = int(cm.group(1)) if cm else -1
        body = [l.strip() for l in notes.splitlines() if l.strip() and not l.lower().startswith("property")]
        meta = {"id": sid, "property": prop, "change": " ".join(body)[:600], "needs_to_manifest": "see notes.txt",
                "confirmed": "demo.py exits 0 on the pristine tree and non-zero with the patch: %s; test suite 566 passed / 46 errors with the patch: %s"
                             % (demo_ok, tests_ok),
                "detected_by": ("%s (exit 1 on first contact)" % prop) if code == 1 else "NOT DETECTED on first contact (exit %d)" % code,
                "author": "independent sub-agent (round 5) given only the property texts and a scratch worktree", "source_dir": d}
        json.dump(meta, open(os.path.join(dst, "meta.json"), "w"), indent=1)
        print("%s <- %s demo=%s tests=%s check exit=%d" % (sid, d, demo_ok, tests_ok, code))
        for l in out.splitlines():
            if l.startswith("    ") and ("R" in l):
                print("      " + l.strip()[:200])
                break


if __name__ == "__main__":
    main()
