#!/venv/bin/python
"""Regenerate MANIFEST.json from the table below (kept here so that the claimed set, the
not_applicable list and the text per property stay consistent).  Run: tools/gen_manifest.py"""

import json
import os

HERE = os.path.dirname(os.path.dirname(os.path.abspath(__file__)))
BASELINE = ("cd /repo && /venv/bin/python -m pytest -ra -q -p no:cacheprovider --timeout=900 "
            "--continue-on-collection-errors")

TRUST = ("Trusted base: CPython ast and xml.etree parsers; the XSD / XML data files shipped under /repo/spec and "
         "/repo/src/pptx/templates as oracle; the structural model of xmlchemy/lxml semantics, which is re-verified "
         "against xmlchemy.py on every run (an unrecognised shape is exit 2, never a pass). Nothing from /repo is "
         "imported or executed.")

# id -> dict(level, text, technique, design)   -- only BUILT checks are listed
CLAIMED = {}

# id -> reason
NOT_APPLICABLE = {}
ADDENDA = {}

ALL = ["C%02d" % i for i in range(1, 21)]


def load_tables():
    g = {}
    with open(os.path.join(HERE, "tools", "claims.py")) as f:
        exec(f.read(), g)
    global ADDENDA
    ADDENDA = g.get("ADDENDA", {})
    return g["CLAIMED"], g["NOT_APPLICABLE"]


def main():
    claimed, na = load_tables()
    checks = []
    for pid in ALL:
        if pid not in claimed:
            continue
        c = claimed[pid]
        checks.append({
            "property_id": pid,
            "quick_cmd": "/venv/bin/python check %s --tier quick" % pid,
            "thorough_cmd": "/venv/bin/python check %s --tier thorough" % pid,
            "evidence_file": "/verif/evidence/%s.json" % pid,
            "replay_cmd_template": "/venv/bin/python check %s --replay {path}" % pid,
            "engine": c.get("engine", "sa"),
            "level_claimed": {"category": c["level"], "text": c["text"] + ADDENDA.get(pid, ""), "design_ref": c.get("design", "DESIGN.md §4")},
            "level_note": c.get("note", TRUST),
            "technique": c["technique"],
        })
    for pid in ALL:
        if pid not in claimed and pid not in na:
            raise SystemExit("property %s neither claimed nor not_applicable" % pid)
    man = {
        "version": 1,
        "setup_cmd": "/venv/bin/python -m compileall -q sa checks selftest tools check",
        "hooks": {
            "guard": "SCANNY_PYTHON_PPTX_VERIF (unused: static analysis reads the sources, no instrumentation in /repo)",
            "enable": "n/a - no hooks; checks parse /repo's working tree",
            "baseline_off_cmd": BASELINE,
            "source_commits": [],
            "add_only": True,
        },
        "engines": [
            {"name": "sa", "path": "/verif/sa", "serves_properties": sorted(claimed),
             "kind_free_text": "repo-specific static analysers: program model (ast), XSD content-model automata, "
                               "xmlchemy declaration model, template abstract evaluation, effect/provenance dataflow, "
                               "simple-type interval evaluation, literal-table evaluation"},
        ],
        "checks": checks,
        "notes": "All checks are static analyses of /repo's current working tree (no import, no execution of pptx). "
                 "Exit 2 + ANALYSIS-ERROR means the analyser could not decide (anchor vanished / idiom unrecognised). "
                 "known_findings.json lists confirmed defects of the pinned tree that are reported as KNOWN-FINDING.",
        "not_applicable": [{"property_id": p, "reason": na[p]} for p in ALL if p in na and p not in claimed],
    }
    with open(os.path.join(HERE, "MANIFEST.json"), "w") as f:
        json.dump(man, f, indent=1)
    print("claimed:", sorted(claimed), "not_applicable:", [p for p in ALL if p not in claimed])


if __name__ == "__main__":
    main()
