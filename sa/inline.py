"""Inline calls to repository-local helpers at statement level, so that rules see through "extract method" refactors.

`expand(prog, f, depth=2)` returns a desugared copy of f's AST in which
    helper(args)            (expression statement)
    x = helper(args)        (plain-name or attribute target)
    return helper(args)
are replaced by the helper's body when the callee resolves to exactly one function of the repository (a method of the
same class via self./cls./ClassName., a nested function, a module-level function) and its desugared body is *return-simple*:
every `return` is the last statement of the body or of an if/else arm that ends the function (no return inside a loop, try
or with).  Parameters are substituted by the argument expressions (arguments that are not plain names, attributes or
constants are first bound to fresh locals), callee locals are renamed `<callee>__<name>_<n>`.  Everything else is left as a call.

Properties read in expression position (`self.p`) are not inlined; rules that need them use `walk_expanded`, which yields the
nodes of the function and of everything reachable through such calls and property reads (bounded depth), for "somewhere in
the computation" queries.
"""

from __future__ import annotations

import ast
import copy

from .desugar import _loc, desugar
from .pysrc import FuncInfo, dotted


TYPES = None  # optional sa.types.Types instance: lets calls on typed receivers (`txBody.add_p()`) resolve to their method


def use_types(t):
    global TYPES
    TYPES = t


def resolve_callee(prog, f, call, local_defs=None):
    """FuncInfo or ast.FunctionDef of the single repository function `call` invokes, with skip_self flag; None otherwise."""
    fn = call.func
    if TYPES is not None and isinstance(fn, ast.Attribute) and isinstance(f, FuncInfo) and (
            (dotted(fn.value) and dotted(fn.value).split(".")[0] not in ("cls",) and dotted(fn.value) not in ("self",))
            or (isinstance(fn.value, ast.Call) and dotted(fn.value.func))):
        from .types import FCtx

        try:
            ts = TYPES.expr(fn.value, FCtx(f))
        except Exception:  # noqa: BLE001
            ts = ()
        insts = {a[1] for a in ts if a[0] == "inst"}
        if len(insts) == 1 and all(a[0] == "inst" for a in ts):
            g = prog.lookup(next(iter(insts)), fn.attr)
            if g is not None and g.kind == "method" and g.module.name.startswith("pptx") and not g.node.decorator_list:
                return g, True
    if isinstance(fn, ast.Name):
        if local_defs and fn.id in local_defs:
            return local_defs[fn.id], False
        r = prog.resolve(f.module, fn.id)
        if isinstance(r, FuncInfo):
            return r, False
        return None
    if isinstance(fn, ast.Attribute) and isinstance(fn.value, ast.Name):
        base = fn.value.id
        if base in ("self", "cls") and f.cls is not None:
            g = prog.lookup(f.cls, fn.attr)
            if g is not None and g.kind in ("method", "classmethod", "staticmethod"):
                return g, g.kind != "staticmethod"
            return None
        r = prog.resolve(f.module, base)
        if r is not None and hasattr(r, "methods"):
            g = prog.lookup(r, fn.attr)
            if g is not None and g.kind in ("classmethod", "staticmethod"):
                return g, g.kind != "staticmethod"
        # a module-level record instance used as a strategy object: `_IMAGE_NAMES = _Numbered("image", True)` ... `_IMAGE_NAMES.next(...)`
        b = getattr(f.module, "assigns", {}).get(base) if hasattr(f, "module") else None
        if isinstance(b, ast.Call):
            from . import records as R_

            rc = R_.record_class(prog, f.module, b.func)
            if rc is not None:
                g = prog.lookup(rc, fn.attr)
                if g is not None and g.kind in ("method", "classmethod", "staticmethod") and not (
                        g.kind == "method" and g.node.decorator_list):
                    return g, g.kind != "staticmethod"
    return None


def as_receiver(callee, owner, call):
    """The callee as seen from a `self.m()` / `cls.m()` call in `owner`: its own self is the caller's (dynamic) class, so that hook
    methods it calls resolve to the overrides of that class (template-method pattern)."""
    if isinstance(callee, FuncInfo) and isinstance(owner, FuncInfo) and owner.cls is not None and callee.cls is not None \
            and callee.cls is not owner.cls and isinstance(call.func, ast.Attribute) and dotted(call.func.value) in ("self", "cls"):
        c2 = copy.copy(callee)
        c2.cls = owner.cls
        return c2
    return callee


def with_self_class(f, cls):
    """f analysed with `self` taken to be an instance of `cls` (a subclass that inherits f)"""
    g = copy.copy(f)
    g.cls = cls
    return g


def _return_simple(body):
    """Every return ends the function: it is the last statement of `body` or of an if/else arm in tail position."""
    def has_ret(n):
        return any(isinstance(x, ast.Return) for x in ast.walk(n))

    for i, st in enumerate(body):
        last = i == len(body) - 1
        if isinstance(st, ast.Return):
            if not last:
                return False
        elif isinstance(st, ast.If):
            if has_ret(st):
                # arms with returns must be in tail position, or every arm that returns must end with its return and the
                # statements after the if are only reached by arms that do not return: model `if c: return X` + rest as
                # if c: return X else: rest
                if not last:
                    if st.orelse and has_ret(ast.Module(body=st.orelse, type_ignores=[])):
                        return False
                    if not _return_simple(st.body):
                        return False
                    if not _return_simple(body[i + 1:]):
                        return False
                    return not any(has_ret(x) for x in body[:i])
                if not (_return_simple(st.body) and _return_simple(st.orelse)):
                    return False
        elif isinstance(st, (ast.FunctionDef, ast.AsyncFunctionDef, ast.ClassDef)):
            continue
        elif has_ret(st):
            return False
    return True


def _normalise_tail(body):
    """Turn `if c: ...return X` followed by rest into if/else so that returns are in tail position of every arm."""
    out = []
    for i, st in enumerate(body):
        if isinstance(st, ast.If) and i < len(body) - 1 and any(isinstance(x, ast.Return) for x in ast.walk(st)) and not st.orelse:
            new = copy.copy(st)
            new.body = _normalise_tail(st.body)
            new.orelse = _normalise_tail(body[i + 1:])
            out.append(new)
            return out
        if isinstance(st, ast.If):
            new = copy.copy(st)
            new.body = _normalise_tail(st.body)
            new.orelse = _normalise_tail(st.orelse)
            out.append(new)
        else:
            out.append(st)
    return out


def _replace_returns(body, make):
    """Replace every tail `return E` by make(E) (list of statements)."""
    out = []
    for st in body:
        if isinstance(st, ast.Return):
            out.extend(make(st.value, st))
        elif isinstance(st, ast.If):
            new = copy.copy(st)
            new.body = _replace_returns(st.body, make) or [_loc(ast.Pass(), st)]
            new.orelse = _replace_returns(st.orelse, make)
            out.append(new)
        else:
            out.append(st)
    return out


class _Subst(ast.NodeTransformer):
    def __init__(self, mapping, rename):
        self.mapping, self.rename = mapping, rename

    def visit_Name(self, n):
        if n.id in self.mapping:
            return copy.deepcopy(self.mapping[n.id])
        if n.id in self.rename:
            return ast.copy_location(ast.Name(id=self.rename[n.id], ctx=n.ctx), n)
        return n

    def visit_FunctionDef(self, n):
        # a nested definition (closure): its free variables are those of the enclosing callee and are rewritten like them; names
        # it binds itself (parameters, its own assignments) shadow the mapping
        bound = {a.arg for a in n.args.args + n.args.posonlyargs + n.args.kwonlyargs}
        if n.args.vararg:
            bound.add(n.args.vararg.arg)
        if n.args.kwarg:
            bound.add(n.args.kwarg.arg)
        body = n.body if isinstance(n.body, list) else [n.body]
        for b in body:
            for x in ast.walk(b):
                if isinstance(x, ast.Name) and isinstance(x.ctx, (ast.Store, ast.Del)):
                    bound.add(x.id)
        sub = _Subst({k: v for k, v in self.mapping.items() if k not in bound}, {k: v for k, v in self.rename.items() if k not in bound})
        if isinstance(n.body, list):
            n.body = [sub.visit(b) for b in n.body]
        else:
            n.body = sub.visit(n.body)
        if isinstance(n, ast.FunctionDef) and n.name in self.rename:
            n.name = self.rename[n.name]
        return n

    visit_Lambda = visit_FunctionDef


def _subst_module_callables(prog, module, node):
    """names of the module bound once, at module level, to a pure function value (`_args_of = operator.attrgetter("a", "b")`,
    `_esc = functools.partial(escape, entities=...)`) read as that value where they are used as a function"""
    import copy as _cp

    assigns = getattr(module, "assigns", None) or {}
    cand = {k: v for k, v in assigns.items() if isinstance(v, ast.Call) and ast.unparse(v.func) in (
        "attrgetter", "operator.attrgetter", "partial", "functools.partial", "itemgetter", "operator.itemgetter", "methodcaller", "operator.methodcaller")}
    if not cand:
        return node
    bound = {x.id for x in ast.walk(node) if isinstance(x, ast.Name) and isinstance(x.ctx, (ast.Store, ast.Del))}
    bound |= {a.arg for fn in ast.walk(node) if isinstance(fn, (ast.FunctionDef, ast.Lambda)) for a in fn.args.args + fn.args.kwonlyargs}

    class S(ast.NodeTransformer):
        def visit_Call(self, c):
            self.generic_visit(c)
            if isinstance(c.func, ast.Name) and c.func.id in cand and c.func.id not in bound:
                c.func = _cp.deepcopy(cand[c.func.id])
            elif ast.unparse(c.func) in ("map", "filter", "itertools.filterfalse", "filterfalse", "itertools.starmap", "starmap") and c.args \
                    and isinstance(c.args[0], ast.Name) and c.args[0].id in cand and c.args[0].id not in bound:
                c.args[0] = _cp.deepcopy(cand[c.args[0].id])
            return c

    return S().visit(node)


def _callee_body(prog, callee, skip_self, call, counter, self_expr):
    node = callee.node if isinstance(callee, FuncInfo) else callee
    if isinstance(callee, FuncInfo):
        node = _subst_module_callables(prog, callee.module, copy.deepcopy(node))
    d = desugar(node)
    body = [s for s in d.body if not (isinstance(s, ast.Expr) and isinstance(s.value, ast.Constant) and isinstance(s.value.value, str))]
    body = _normalise_tail(body)
    if not _return_simple(body):
        return None
    a = node.args
    if a.vararg or a.kwarg or any(k.arg is None for k in call.keywords):
        return None
    star = [x for x in call.args if isinstance(x, ast.Starred)]
    if star and a.kwonlyargs:
        return None
    if star and not (len(star) == 1 and call.args[-1] is star[0] and isinstance(star[0].value, (ast.Name, ast.Attribute)) and dotted(star[0].value)):
        return None
    params = [x.arg for x in a.posonlyargs + a.args]
    mapping, pre = {}, []
    if star:
        # `f(x, *E)`: the parameters left over (none of them defaulted or given by keyword, so their number is forced) are E[0], E[1], ...
        import copy as _cp

        npos = len(call.args) - 1
        rest = params[(1 if skip_self else 0) + npos:]
        given_kw = {k.arg for k in call.keywords}
        ndef = len(a.defaults)
        defaulted = set(params[-ndef:]) if ndef else set()
        if not rest or any(p in defaulted or p in given_kw for p in rest):
            return None
        tmp = "%s__star_%d" % (node.name, counter[0])
        pre.append(_loc(ast.Assign(targets=[ast.Name(id=tmp, ctx=ast.Store())], value=star[0].value, type_comment=None), call))
        call = _cp.copy(call)
        call.args = list(call.args[:-1]) + [_loc(ast.Subscript(value=ast.Name(id=tmp, ctx=ast.Load()), slice=ast.Constant(value=i), ctx=ast.Load()), call)
                                            for i in range(len(rest))]
    if skip_self and params:
        if self_expr is not None and not isinstance(self_expr, (ast.Name, ast.Attribute)):
            # a computed receiver (`Factory.make(x).method()`) is evaluated once
            tmp = "%s__%s_%d" % (node.name, params[0], counter[0])
            pre.append(_loc(ast.Assign(targets=[ast.Name(id=tmp, ctx=ast.Store())], value=self_expr, type_comment=None), call))
            mapping[params[0]] = ast.Name(id=tmp, ctx=ast.Load())
        else:
            mapping[params[0]] = self_expr
        params = params[1:]
    defaults = dict(zip([x.arg for x in (a.posonlyargs + a.args)][-len(a.defaults):], a.defaults)) if a.defaults else {}
    for ko_, kd_ in zip(a.kwonlyargs, a.kw_defaults):   # keyword-only parameters: given by name, or defaulted
        if kd_ is not None:
            defaults[ko_.arg] = kd_
    if len(call.args) > len(params):
        return None
    given = dict(zip(params, call.args))
    for k in call.keywords:
        given[k.arg] = k.value
    params = params + [ko_.arg for ko_ in a.kwonlyargs]
    for p in params:
        v = given.get(p, defaults.get(p))
        if v is None:
            return None
        if isinstance(v, (ast.Name, ast.Constant)) or (isinstance(v, ast.Attribute) and dotted(v)):
            mapping[p] = v
        else:
            tmp = "%s__%s_%d" % (node.name, p, counter[0])
            pre.append(_loc(ast.Assign(targets=[ast.Name(id=tmp, ctx=ast.Store())], value=v, type_comment=None), call))
            mapping[p] = ast.Name(id=tmp, ctx=ast.Load())
    # locals assigned in the callee get fresh names
    assigned = set()
    for n in ast.walk(ast.Module(body=body, type_ignores=[])):
        if isinstance(n, ast.Name) and isinstance(n.ctx, ast.Store):
            assigned.add(n.id)
    rename = {n: "%s__%s_%d" % (node.name, n, counter[0]) for n in assigned if n not in mapping}
    # a parameter that is re-assigned in the callee must become a local too
    for p in list(mapping):
        if p in assigned:
            tmp = "%s__%s_%d" % (node.name, p, counter[0])
            pre.append(_loc(ast.Assign(targets=[ast.Name(id=tmp, ctx=ast.Store())], value=copy.deepcopy(mapping[p]), type_comment=None), call))
            rename[p] = tmp
            del mapping[p]
    counter[0] += 1
    sub = _Subst(mapping, rename)
    new = [sub.visit(copy.deepcopy(s)) for s in body]
    return pre + new


class _ExprInliner(ast.NodeTransformer):
    """Replace calls of single-expression helpers (`def h(a, b): return E`) by E with the arguments substituted, anywhere in an
    expression (conditions included).  Arguments must be side-effect-free expressions (names, attributes, constants, subscripts of
    those) because substitution may duplicate or drop them."""

    def __init__(self, prog, owner, local_defs, depth, skip_names=()):
        self.prog, self.owner, self.local_defs, self.depth, self.skip_names = prog, owner, local_defs, depth, skip_names

    def visit_FunctionDef(self, n):
        return n

    visit_Lambda = visit_FunctionDef

    def visit_Call(self, n):
        self.generic_visit(n)
        if self.depth <= 0:
            return n
        r = resolve_callee(self.prog, self.owner, n, self.local_defs)
        if r is None:
            return n
        callee, skip = r
        cnode = callee.node if isinstance(callee, FuncInfo) else callee
        if cnode.name in self.skip_names:
            return n
        # only helpers of the same module: calls into other modules are the named operations rules are written against
        if isinstance(callee, FuncInfo) and callee.module is not self.owner.module:
            return n
        body = [s for s in cnode.body if not (isinstance(s, ast.Expr) and isinstance(s.value, ast.Constant) and isinstance(s.value.value, str))]
        ret_expr = _as_expr(body)
        if ret_expr is None:
            return n
        body = [ast.Return(value=ret_expr)]
        # iterator factories (`return (x for ...)`) stay calls: rules name regions and sources by the iterator
        rv_ = body[0].value
        if isinstance(rv_, (ast.GeneratorExp, ast.ListComp, ast.SetComp, ast.DictComp, ast.Lambda)) or (
                isinstance(rv_, ast.Call) and dotted(rv_.func) in ("list", "tuple", "iter", "sorted", "reversed", "set", "dict") and rv_.args
                and isinstance(rv_.args[0], (ast.GeneratorExp, ast.ListComp))) or any(
                isinstance(x, (ast.Await, ast.Yield, ast.YieldFrom, ast.NamedExpr)) for x in ast.walk(rv_)):
            return n
        a = cnode.args
        if a.vararg or a.kwarg or a.kwonlyargs or any(isinstance(x, ast.Starred) for x in n.args) or any(k.arg is None for k in n.keywords):
            return n
        params = [x.arg for x in a.posonlyargs + a.args]
        mapping = {}
        if skip and params:
            mapping[params[0]] = copy.deepcopy(n.func.value) if isinstance(n.func, ast.Attribute) else ast.Name(id=params[0], ctx=ast.Load())
            params = params[1:]
        defaults = dict(zip([x.arg for x in (a.posonlyargs + a.args)][-len(a.defaults):], a.defaults)) if a.defaults else {}
        given = dict(zip(params, n.args))
        for k in n.keywords:
            given[k.arg] = k.value
        for p in params:
            v = given.get(p, defaults.get(p))
            if v is None:
                return n
            if not _pure_arg(v):
                # an argument with effects / cost may still be substituted when the helper uses the parameter exactly once
                uses = sum(1 for x in ast.walk(body[0].value) if isinstance(x, ast.Name) and x.id == p)
                if uses != 1 or not isinstance(v, (ast.GeneratorExp, ast.ListComp, ast.Call, ast.Dict, ast.List, ast.Tuple, ast.Set)):
                    return n
            mapping[p] = v
        # the callee must not bind names itself (comprehension variables are fine)
        expr = copy.deepcopy(body[0].value)
        new = _Subst(mapping, {}).visit(expr)
        sub_owner = as_receiver(callee, self.owner, n) if isinstance(callee, FuncInfo) else self.owner
        new = _ExprInliner(self.prog, sub_owner, {}, self.depth - 1, self.skip_names).visit(new)
        return ast.copy_location(new, n) if hasattr(new, "lineno") or True else new


def _as_expr(body):
    """The value a helper returns as one expression, when its body is only guard clauses and returns (plus single-assignment
    aliases of pure expressions): `if c: return A` + rest -> (A if c else <rest>), simplified to and/or/not when an arm is a
    boolean constant.  None when the body does anything else."""
    body = list(body)
    counts = {}
    for st in body:
        for x in ast.walk(st):
            if isinstance(x, ast.Name) and isinstance(x.ctx, ast.Store):
                counts[x.id] = counts.get(x.id, 0) + 1

    def go(stmts, env):
        if not stmts:
            return None
        st, rest = stmts[0], stmts[1:]
        if isinstance(st, ast.Return):
            if st.value is None:
                return None
            return _Subst(env, {}).visit(copy.deepcopy(st.value)) if env else copy.deepcopy(st.value)
        if isinstance(st, ast.Assign) and len(st.targets) == 1 and isinstance(st.targets[0], ast.Name) \
                and counts.get(st.targets[0].id) == 1 and _pure_arg(st.value):
            v = _Subst(env, {}).visit(copy.deepcopy(st.value)) if env else copy.deepcopy(st.value)
            return go(rest, dict(env, **{st.targets[0].id: v}))
        if isinstance(st, ast.If):
            c = _Subst(env, {}).visit(copy.deepcopy(st.test)) if env else copy.deepcopy(st.test)
            a = go(list(st.body) + rest, env)
            b = go(list(st.orelse) + rest, env)
            if a is None or b is None:
                return None
            return _bool_ifexp(c, a, b)
        return None

    return go(body, {})


def _bool_ifexp(c, a, b):
    def const(x, v):
        return isinstance(x, ast.Constant) and x.value is v

    def neg(x):
        if isinstance(x, ast.UnaryOp) and isinstance(x.op, ast.Not):
            return x.operand
        if isinstance(x, ast.Compare) and len(x.ops) == 1:
            flip = {ast.In: ast.NotIn, ast.NotIn: ast.In, ast.Is: ast.IsNot, ast.IsNot: ast.Is, ast.Eq: ast.NotEq, ast.NotEq: ast.Eq}
            if type(x.ops[0]) in flip:
                return ast.Compare(left=x.left, ops=[flip[type(x.ops[0])]()], comparators=x.comparators)
        return ast.UnaryOp(op=ast.Not(), operand=x)

    if const(a, True) and const(b, False):
        return c
    if const(a, False) and const(b, True):
        return neg(c)
    if const(a, False):
        return ast.BoolOp(op=ast.And(), values=[neg(c), b])
    if const(a, True):
        return ast.BoolOp(op=ast.Or(), values=[c, b])
    if const(b, False):
        return ast.BoolOp(op=ast.And(), values=[c, a])
    if const(b, True):
        return ast.BoolOp(op=ast.Or(), values=[neg(c), a])
    return ast.IfExp(test=c, body=a, orelse=b)


def _pure_arg(v):
    if isinstance(v, (ast.Name, ast.Constant)):
        return True
    if isinstance(v, ast.Attribute):
        return _pure_arg(v.value)
    if isinstance(v, ast.Subscript):
        return _pure_arg(v.value) and _pure_arg(v.slice)
    if isinstance(v, ast.Tuple):
        return all(_pure_arg(e) for e in v.elts)
    if isinstance(v, ast.Call) and dotted(v.func) in ("len", "int", "str", "tuple", "list"):
        return all(_pure_arg(x) for x in v.args)
    if isinstance(v, (ast.BinOp,)):
        return _pure_arg(v.left) and _pure_arg(v.right)
    if isinstance(v, ast.UnaryOp):
        return _pure_arg(v.operand)
    return False


def expand(prog, f, depth=2, local_only=False, skip_names=()):
    # local_only: inline only helpers of f's own module (calls into other modules stay as named operations)
    counter = [0]
    root = desugar(_subst_module_callables(prog, f.module, copy.deepcopy(f.node)))

    def walk_block(stmts, owner, level, local_defs):
        out = []
        stmts = _hoist_helper_calls(prog, owner, stmts, local_defs, counter, local_only, f, skip_names) if level < depth else stmts
        for st in stmts:
            if isinstance(st, (ast.FunctionDef, ast.AsyncFunctionDef)):
                local_defs = dict(local_defs)
                local_defs[st.name] = st
                st.body = walk_block(st.body, owner, level, local_defs)  # closures see the same helpers
                out.append(st)
                continue
            if isinstance(st, ast.For) and isinstance(st.iter, ast.Call) and level < depth and not st.orelse:
                fused = _fuse_generator_loop(prog, owner, st, local_defs, counter, local_only, f, skip_names)
                if fused is not None:
                    body_, sub_owner_ = fused
                    out.extend(walk_block(body_, sub_owner_, level + 1, local_defs))
                    continue
            call, kind = None, None
            if isinstance(st, ast.Expr) and isinstance(st.value, ast.Call):
                call, kind = st.value, "expr"
            elif isinstance(st, ast.Assign) and len(st.targets) == 1 and isinstance(st.value, ast.Call) \
                    and isinstance(st.targets[0], (ast.Name, ast.Attribute)):
                call, kind = st.value, "assign"
            elif isinstance(st, ast.Assign) and len(st.targets) == 1 and isinstance(st.value, ast.Call) \
                    and isinstance(st.targets[0], ast.Tuple) and all(isinstance(e, ast.Name) for e in st.targets[0].elts):
                call, kind = st.value, "assign-tuple"
            elif isinstance(st, ast.Return) and isinstance(st.value, ast.Call):
                call, kind = st.value, "return"
            done = False
            if call is not None and level < depth:
                r = resolve_callee(prog, owner, call, local_defs)
                if r is not None:
                    callee, skip = r
                    cnode = callee.node if isinstance(callee, FuncInfo) else callee
                    is_gen = any(isinstance(x, (ast.Yield, ast.YieldFrom)) for x in ast.walk(cnode))
                    # `return gen_helper(...)`: the caller hands out the helper's generator; read as the generator itself
                    # (only when nothing with an effect precedes the return here: the helper's body runs lazily, what precedes runs now)
                    def _quiet(ss):
                        return all(isinstance(s_, ast.Assign) and all(isinstance(t_, ast.Name) for t_ in s_.targets) or isinstance(s_, (ast.Pass, ast.AnnAssign))
                                   or (isinstance(s_, ast.Expr) and isinstance(s_.value, ast.Constant)) for s_ in ss)
                    gen_ok = is_gen and kind == "return" and all(
                        x.value is None for x in ast.walk(cnode) if isinstance(x, ast.Return)) and _quiet(stmts[:stmts.index(st)])
                    if cnode is not f.node and cnode.name not in skip_names and (not is_gen or gen_ok) \
                            and not (local_only and isinstance(callee, FuncInfo) and callee.module is not f.module):
                        self_expr = copy.deepcopy(call.func.value) if isinstance(call.func, ast.Attribute) else None
                        body = _callee_body(prog, callee, skip, call, counter, self_expr)
                        if body is not None:
                            if kind == "expr":
                                body = _replace_returns(body, lambda v, s: [] if v is None else [_loc(ast.Expr(value=v), s)])
                            elif kind == "assign-tuple":
                                tgt = st.targets[0]
                                arity = len(tgt.elts)
                                rets = [x for x in ast.walk(ast.Module(body=body, type_ignores=[])) if isinstance(x, ast.Return)]
                                if not rets or not all(isinstance(x.value, ast.Tuple) and len(x.value.elts) == arity for x in rets):
                                    body = None
                                else:
                                    from .desugar import _D

                                    def mk(v, s, tgt=tgt):
                                        a_ = _loc(ast.Assign(targets=[copy.deepcopy(tgt)], value=v, type_comment=None), s)
                                        r_ = _D().visit_Assign(a_)
                                        return r_ if isinstance(r_, list) else [r_]
                                    body = _replace_returns(body, mk)
                            elif kind == "assign":
                                tgt = st.targets[0]
                                body = _replace_returns(body, lambda v, s, tgt=tgt: [_loc(ast.Assign(
                                    targets=[copy.deepcopy(tgt)], value=v if v is not None else ast.Constant(value=None), type_comment=None), s)])
                            else:
                                body = _replace_returns(body, lambda v, s: [_loc(ast.Return(value=v), s)])
                        if body is not None:
                            sub_owner = as_receiver(callee, owner, call) if isinstance(callee, FuncInfo) else owner
                            body = _prune_const_ifs(body)   # arguments that are constants decide the callee's branches
                            out.extend(walk_block(body, sub_owner, level + 1, local_defs))
                            done = True
            if done:
                continue
            for fld in ("body", "orelse", "finalbody"):
                b = getattr(st, fld, None)
                if isinstance(b, list) and b and isinstance(b[0], ast.stmt):
                    setattr(st, fld, walk_block(b, owner, level, local_defs))
            for h in getattr(st, "handlers", []) or []:
                h.body = walk_block(h.body, owner, level, local_defs)
            out.append(st)
        return out

    root.body = walk_block(root.body, f, 0, {})
    # expression-level inlining of single-expression helpers (predicates in conditions, value helpers in expressions)
    local_defs = {n.name: n for n in ast.walk(root) if isinstance(n, ast.FunctionDef) and n is not root}
    new_body = []
    for st in root.body:
        new_body.append(_inline_stmt_exprs(prog, f, st, local_defs, depth, skip_names))
    root.body = new_body
    _inline_captures(root)
    from .desugar import _FuseGen

    _propagate_generator_temps(root)
    before_ = ast.dump(root)
    root = _propagate_callable_temps(root)
    if ast.dump(root) != before_ and depth > 0:
        # calls that became visible (partial(F, a)(x) -> F(a, x)) are read like the others
        ast.fix_missing_locations(root)
        root.body = [_inline_stmt_exprs(prog, f, st, local_defs, depth, skip_names) for st in root.body]
    root = _FuseGen().visit(root)   # generator arguments substituted into helper comprehensions fuse with them
    root = _fold_record_constants(prog, f.module, root)
    root = _scalarise_records(prog, f.module, root)
    _drop_dead_local_defs(root)
    ast.fix_missing_locations(root)
    # what the inlining made visible (literals where parameters were, pipelines over them) is brought to canonical form as well
    root = _fold_class_constants(prog, f, root)
    ast.fix_missing_locations(root)
    root = desugar(root)
    root = _literal_attr_access(root)   # names that became literal only now (`getattr(ser, "_remove_%s" % "tx")`)
    ast.fix_missing_locations(root)
    return root


def _is_inliner_temp(name):
    import re

    return name.startswith("hoist__") or re.fullmatch(r".+__.+_\d+", name) is not None


def _fuse_generator_loop(prog, owner, st, local_defs, counter, local_only, top, skip_names):
    """`for v in gen(args): BODY`, gen a generator function of the repository  ->  gen's body with every `yield E` replaced by
    `v = E; BODY` (what running the loop does, item by item).  Only when the loop body has no break/continue of its own and the
    generator neither returns nor uses the value of a yield."""
    r = resolve_callee(prog, owner, st.iter, local_defs)
    if r is None:
        return None
    callee, skip = r
    cnode = callee.node if isinstance(callee, FuncInfo) else callee
    if cnode is top.node or cnode.name in skip_names or (local_only and isinstance(callee, FuncInfo) and callee.module is not top.module):
        return None
    own = [x for x in _walk_same_function(cnode)]
    ys = [x for x in own if isinstance(x, (ast.Yield, ast.YieldFrom))]
    if not ys:
        # a helper that hands back a generator expression: the loop runs over that expression
        rets = [x for x in own if isinstance(x, ast.Return)]
        if len(rets) == 1 and isinstance(rets[0].value, ast.GeneratorExp) and not st.orelse:
            self_expr = copy.deepcopy(st.iter.func.value) if isinstance(st.iter.func, ast.Attribute) else None
            body = _callee_body(prog, callee, skip, st.iter, counter, self_expr)
            if body and isinstance(body[-1], ast.Return) and isinstance(body[-1].value, ast.GeneratorExp) \
                    and not any(isinstance(x, ast.Return) for b in body[:-1] for x in ast.walk(b)):
                from .desugar import _D

                d_ = _D()
                d_.lits, d_.gens = {}, {}
                loop = _loc(ast.For(target=copy.deepcopy(st.target), iter=body[-1].value, body=copy.deepcopy(st.body), orelse=[], type_comment=None), st)
                r_ = d_.visit_For(loop)
                sub_owner = as_receiver(callee, owner, st.iter) if isinstance(callee, FuncInfo) else owner
                return body[:-1] + (r_ if isinstance(r_, list) else [r_]), sub_owner
        return None
    if len(ys) > 3 or any(isinstance(x, ast.YieldFrom) or x.value is None for x in ys) or any(isinstance(x, ast.Return) for x in own):
        return None

    def own_jumps(stmts):
        for s_ in stmts:
            if isinstance(s_, (ast.Break, ast.Continue)):
                return True
            if isinstance(s_, (ast.For, ast.While, ast.FunctionDef, ast.AsyncFunctionDef, ast.ClassDef)):
                continue
            for fld in ("body", "orelse", "finalbody"):
                b = getattr(s_, fld, None)
                if isinstance(b, list) and b and isinstance(b[0], ast.stmt) and own_jumps(b):
                    return True
            if any(own_jumps(h.body) for h in getattr(s_, "handlers", []) or []):
                return True
        return False

    if own_jumps(st.body):
        return None
    self_expr = copy.deepcopy(st.iter.func.value) if isinstance(st.iter.func, ast.Attribute) else None
    body = _callee_body(prog, callee, skip, st.iter, counter, self_expr)
    if body is None:
        return None
    from .desugar import _D

    ok = [True]

    def rep(stmts):
        out = []
        for s_ in stmts:
            if isinstance(s_, ast.Expr) and isinstance(s_.value, ast.Yield):
                a_ = _loc(ast.Assign(targets=[copy.deepcopy(st.target)], value=s_.value.value, type_comment=None), s_)
                r_ = _D().visit_Assign(a_)
                out.extend(r_ if isinstance(r_, list) else [r_])
                out.extend(copy.deepcopy(st.body))
                continue
            for fld in ("body", "orelse", "finalbody"):
                b = getattr(s_, fld, None)
                if isinstance(b, list) and b and isinstance(b[0], ast.stmt):
                    setattr(s_, fld, rep(b))
            for h in getattr(s_, "handlers", []) or []:
                h.body = rep(h.body)
            out.append(s_)
        return out

    n_yields = sum(1 for s_ in body for x in ast.walk(s_) if isinstance(x, ast.Yield))
    n_stmt_yields = sum(1 for s_ in body for x in ast.walk(s_) if isinstance(x, ast.Expr) and isinstance(x.value, ast.Yield))
    if n_yields != n_stmt_yields:
        return None   # the value of a yield is used
    new = rep(body)
    if not ok[0]:
        return None
    sub_owner = as_receiver(callee, owner, st.iter) if isinstance(callee, FuncInfo) else owner
    return _prune_const_ifs(new), sub_owner


def _walk_same_function(fnode):
    """nodes of a function body, nested definitions excluded"""
    todo = list(fnode.body)
    while todo:
        n = todo.pop()
        yield n
        for c in ast.iter_child_nodes(n):
            if not isinstance(c, (ast.FunctionDef, ast.AsyncFunctionDef, ast.Lambda, ast.ClassDef)):
                todo.append(c)


def _drop_dead_local_defs(root):
    """a nested helper every call of which was read in place is no longer part of the computation"""
    used = {n.id for n in ast.walk(root) if isinstance(n, ast.Name) and isinstance(n.ctx, ast.Load)}

    def blk(stmts):
        out = []
        for st in stmts:
            if isinstance(st, (ast.FunctionDef, ast.AsyncFunctionDef)) and st is not root and st.name not in used and not st.decorator_list:
                continue
            for fld in ("body", "orelse", "finalbody"):
                b = getattr(st, fld, None)
                if isinstance(b, list) and b and isinstance(b[0], ast.stmt):
                    nb = blk(b)
                    setattr(st, fld, nb or ([ast.Pass()] if fld == "body" else []))
            for h in getattr(st, "handlers", []) or []:
                h.body = blk(h.body) or [ast.Pass()]
            out.append(st)
        return out

    root.body = blk(root.body) or [ast.Pass()]


def _scalarise_records(prog, module, root):
    """A local bound once to a NamedTuple construction (`t = Rec(a=E1, b=E2)`) has its fields in locals of their own:
    `t__a_0 = E1; t__b_0 = E2; t = Rec(a=t__a_0, b=t__b_0)` and every `t.a` reads `t__a_0` (the fields of a tuple cannot be rebound,
    so the two spellings denote the same objects).  Uses of `t` as a whole stay."""
    from . import records as R_

    stores = {}
    for n in ast.walk(root):
        if isinstance(n, ast.Name) and isinstance(n.ctx, (ast.Store, ast.Del)):
            stores[n.id] = stores.get(n.id, 0) + 1
    todo = []
    for n in ast.walk(root):
        if isinstance(n, ast.Assign) and len(n.targets) == 1 and isinstance(n.targets[0], ast.Name) and stores.get(n.targets[0].id) == 1 \
                and isinstance(n.value, ast.Call):
            rc = R_.record_class(prog, module, n.value.func)
            if rc is None or not any((dotted(b) or "").split(".")[-1] == "NamedTuple" for b in rc.node.bases):
                continue
            fs = R_.fields_of(prog, module, n.value.func)
            cs = R_.components(prog, module, n.value)
            if fs and cs and len(fs) == len(cs):
                todo.append((n, n.targets[0].id, fs, cs))
    if not todo:
        return root
    ren = {}
    for st, t, fs, cs in todo:
        for f_ in fs:
            ren[(t, f_)] = "%s__%s_0" % (t, f_)

    class B(ast.NodeTransformer):
        def _blk(self, stmts):
            out = []
            for s_ in stmts:
                hit = next((x for x in todo if x[0] is s_), None)
                if hit is not None:
                    _st, t, fs, cs = hit
                    for f_, c_ in zip(fs, cs):
                        out.append(ast.copy_location(ast.Assign(targets=[ast.Name(id=ren[(t, f_)], ctx=ast.Store())], value=c_, type_comment=None), s_))
                    s_.value = ast.copy_location(ast.Call(func=s_.value.func, args=[], keywords=[
                        ast.keyword(arg=f_, value=ast.Name(id=ren[(t, f_)], ctx=ast.Load())) for f_ in fs]), s_.value)
                    out.append(s_)
                    continue
                r = self.visit(s_)
                out.extend(r if isinstance(r, list) else [r] if r is not None else [])
            return out

        def generic_visit(self, node):
            for fld in ("body", "orelse", "finalbody"):
                b = getattr(node, fld, None)
                if isinstance(b, list) and b and isinstance(b[0], ast.stmt):
                    setattr(node, fld, self._blk(b))
            for h in getattr(node, "handlers", []) or []:
                h.body = self._blk(h.body)
            return ast.NodeTransformer.generic_visit(self, node) if isinstance(node, ast.expr) else node

    root.body = B()._blk(root.body)

    class A(ast.NodeTransformer):
        def visit_Attribute(self, n):
            self.generic_visit(n)
            if isinstance(n.value, ast.Name) and isinstance(n.ctx, ast.Load) and (n.value.id, n.attr) in ren:
                return ast.copy_location(ast.Name(id=ren[(n.value.id, n.attr)], ctx=ast.Load()), n)
            return n

    return A().visit(root)


def _fold_record_constants(prog, module, root):
    """`K.f`, K a module constant built by a record constructor from literals (`_X_AXIS = _Axis(offset="x", ...)`), reads as the
    literal; `getattr(o, "a")` / `setattr(o, "a", v)` with the name now literal read as the attribute access they perform."""
    from . import records as R_

    if not any(isinstance(n, ast.Attribute) and isinstance(n.value, ast.Name) and n.value.id in module.assigns for n in ast.walk(root)):
        return _literal_attr_access(root)
    bound = {n.id for n in ast.walk(root) if isinstance(n, ast.Name) and isinstance(n.ctx, (ast.Store, ast.Del))}
    bound |= {a.arg for fn in ast.walk(root) if isinstance(fn, (ast.FunctionDef, ast.Lambda)) for a in fn.args.args + fn.args.kwonlyargs}
    changed = [False]

    class F(ast.NodeTransformer):
        def visit_Attribute(self, n):
            self.generic_visit(n)
            if isinstance(n.value, ast.Name) and isinstance(n.ctx, ast.Load) and n.value.id not in bound:
                k = module.assigns.get(n.value.id)
                if isinstance(k, ast.Call):
                    fs = R_.fields_of(prog, module, k.func)
                    cs = R_.components(prog, module, k) if fs else None
                    if cs and n.attr in fs and isinstance(cs[fs.index(n.attr)], ast.Constant):
                        changed[0] = True
                        return ast.copy_location(ast.Constant(value=cs[fs.index(n.attr)].value), n)
            return n

    root = F().visit(root)
    return _literal_attr_access(root)


def _fold_const_str(e):
    """a string built from literals only (`"_remove_%s" % "tx"`, `"a" + "b"`, f"x{'y'}") as the literal it is; other nodes unchanged"""
    if isinstance(e, ast.BinOp) and isinstance(e.op, ast.Mod) and isinstance(e.left, ast.Constant) and isinstance(e.left.value, str):
        r = e.right
        vals = None
        if isinstance(r, ast.Constant) and isinstance(r.value, (str, int)) and not isinstance(r.value, bool):
            vals = (r.value,)
        elif isinstance(r, ast.Tuple) and all(isinstance(x, ast.Constant) and isinstance(x.value, (str, int)) and not isinstance(x.value, bool) for x in r.elts):
            vals = tuple(x.value for x in r.elts)
        if vals is not None:
            try:
                return ast.copy_location(ast.Constant(value=e.left.value % vals), e)
            except (TypeError, ValueError):
                return e
    if isinstance(e, ast.BinOp) and isinstance(e.op, ast.Add) and all(isinstance(x, ast.Constant) and isinstance(x.value, str) for x in (e.left, e.right)):
        return ast.copy_location(ast.Constant(value=e.left.value + e.right.value), e)
    if isinstance(e, ast.JoinedStr) and all(isinstance(v, ast.Constant) or (isinstance(v, ast.FormattedValue) and isinstance(v.value, ast.Constant)
                                            and isinstance(v.value.value, str) and v.format_spec is None and v.conversion == -1) for v in e.values):
        return ast.copy_location(ast.Constant(value="".join(v.value if isinstance(v, ast.Constant) else v.value.value for v in e.values)), e)
    return e


def _fold_class_constants(prog, f, root):
    """`self.K` / `cls.K`, K a class-level table of literals (str / int / tuple of them) that no method ever assigns on an instance,
    reads as the literal - for the class the function is analysed for (`with_self_class`): a template method driven by a table its
    subclasses override is specialised to the subclass."""
    if f.cls is None:
        return root
    from .pysrc import Unknown

    cands = {n.attr for n in ast.walk(root) if isinstance(n, ast.Attribute) and isinstance(n.value, ast.Name) and n.value.id in ("self", "cls")
             and isinstance(n.ctx, ast.Load)}
    consts = {}
    for name in cands:
        a = prog.lookup_attr(f.cls, name)
        if a is None or prog.lookup(f.cls, name) is not None:
            continue
        v = prog.const(a[1], a[0].module, None, a[0])
        ok = isinstance(v, (str, int)) and not isinstance(v, bool) or (
            isinstance(v, tuple) and all(isinstance(x, (str, int)) and not isinstance(x, bool) for x in v))
        if isinstance(v, Unknown) or not ok:
            continue
        consts[name] = v
    if not consts:
        return root
    stored = set()
    for g in prog.all_functions():
        if g.cls is None or not (g.cls in prog.mro(f.cls) or f.cls in prog.mro(g.cls)):
            continue
        for n in ast.walk(g.node):
            if isinstance(n, ast.Attribute) and isinstance(n.ctx, (ast.Store, ast.Del)) and isinstance(n.value, ast.Name) and n.value.id in ("self", "cls"):
                stored.add(n.attr)
    consts = {k: v for k, v in consts.items() if k not in stored}

    class F(ast.NodeTransformer):
        def visit_Attribute(self, n):
            self.generic_visit(n)
            if isinstance(n.value, ast.Name) and n.value.id in ("self", "cls") and isinstance(n.ctx, ast.Load) and n.attr in consts:
                return ast.copy_location(ast.parse(repr(consts[n.attr]), mode="eval").body, n)
            return n

    return F().visit(root) if consts else root


def _literal_attr_access(root):
    def lit(e):
        e = _fold_const_str(e)
        return isinstance(e, ast.Constant) and isinstance(e.value, str) and e.value.isidentifier()

    class G(ast.NodeTransformer):
        def visit_Call(self, n):
            self.generic_visit(n)
            if isinstance(n.func, ast.Name) and n.func.id == "getattr" and len(n.args) == 2 and not n.keywords and lit(n.args[1]):
                return ast.copy_location(ast.Attribute(value=n.args[0], attr=_fold_const_str(n.args[1]).value, ctx=ast.Load()), n)
            return n

        def visit_Expr(self, st):
            v = st.value
            if isinstance(v, ast.Call) and isinstance(v.func, ast.Name) and v.func.id == "setattr" and len(v.args) == 3 and not v.keywords and lit(v.args[1]):
                return ast.copy_location(ast.Assign(targets=[ast.Attribute(value=v.args[0], attr=_fold_const_str(v.args[1]).value, ctx=ast.Store())],
                                                    value=self.visit(v.args[2]), type_comment=None), st)
            return self.generic_visit(st)

    return G().visit(root)


def _propagate_callable_temps(root):
    """`t = lambda v: E` / `t = operator.attrgetter("a")` bound once by the inliner (a function-valued argument) is written at its
    calls, and a call of a literal lambda is replaced by its body: `pick([edge(x) for x in xs])` reads `min([x.a for x in xs])`."""
    from .desugar import _Functional

    stores, vals = {}, {}
    for n in ast.walk(root):
        if isinstance(n, ast.Name) and isinstance(n.ctx, (ast.Store, ast.Del)):
            stores[n.id] = stores.get(n.id, 0) + 1
    called = {c.func.id for c in ast.walk(root) if isinstance(c, ast.Call) and isinstance(c.func, ast.Name)}
    for n in ast.walk(root):
        if isinstance(n, ast.Assign) and len(n.targets) == 1 and isinstance(n.targets[0], ast.Name) and stores.get(n.targets[0].id) == 1 \
                and (_is_inliner_temp(n.targets[0].id) or n.targets[0].id in called):
            v = n.value
            # (a user's local qualifies as well when it is bound once to a pure getter: `target_of = attrgetter("a" if ext else "b")`)
            if isinstance(v, ast.Lambda) and _is_inliner_temp(n.targets[0].id):
                vals[n.targets[0].id] = v
            elif isinstance(v, ast.Call) and ast.unparse(v.func) in ("partial", "functools.partial") and v.args and not v.keywords \
                    and all(isinstance(a, (ast.Name, ast.Attribute, ast.Constant)) for a in v.args):
                vals[n.targets[0].id] = v   # partial(F, a, b): called as F(a, b, x)
            elif isinstance(v, ast.Call) and ast.unparse(v.func) in ("attrgetter", "operator.attrgetter") and len(v.args) == 1 and (
                    isinstance(v.args[0], ast.Constant) or (isinstance(v.args[0], ast.IfExp) and isinstance(v.args[0].test, (ast.Name, ast.Attribute))
                                                            and all(isinstance(x, ast.Constant) for x in (v.args[0].body, v.args[0].orelse)))):
                vals[n.targets[0].id] = v
    if not vals:
        return root

    class S(ast.NodeTransformer):
        def visit_Name(self, x):
            return copy.deepcopy(vals[x.id]) if isinstance(x.ctx, ast.Load) and x.id in vals else x

        def visit_Assign(self, st):
            if len(st.targets) == 1 and isinstance(st.targets[0], ast.Name) and st.targets[0].id in vals:
                return None
            return self.generic_visit(st)

    root = S().visit(root)

    class B(ast.NodeTransformer):
        def visit_Call(self, node):
            self.generic_visit(node)
            f = node.func
            if isinstance(f, ast.Call) and ast.unparse(f.func) in ("partial", "functools.partial") and f.args and not f.keywords:
                return ast.copy_location(ast.Call(func=f.args[0], args=list(f.args[1:]) + list(node.args), keywords=list(node.keywords)), node)
            if isinstance(f, ast.Lambda) and not node.keywords and len(f.args.args) == len(node.args) and not f.args.defaults \
                    and not f.args.vararg and not f.args.kwarg and not f.args.kwonlyargs \
                    and all(isinstance(a, (ast.Name, ast.Constant, ast.Attribute)) for a in node.args):
                m = {p.arg: a for p, a in zip(f.args.args, node.args)}

                class R(ast.NodeTransformer):
                    def visit_Name(self_, x):
                        return copy.deepcopy(m[x.id]) if x.id in m and isinstance(x.ctx, ast.Load) else x
                return ast.copy_location(R().visit(copy.deepcopy(f.body)), node)
            return node

    root = B().visit(root)
    root = _Functional().visit(root)
    ast.fix_missing_locations(root)
    return root


def _first_iterable_use(stmt, name):
    """`name` is read in `stmt` as the outermost iterable of a comprehension or as the iterable of a for loop (the place a generator
    bound in the statement before is consumed)"""
    for x in ast.walk(stmt):
        if isinstance(x, (ast.GeneratorExp, ast.ListComp, ast.SetComp, ast.DictComp)) and isinstance(x.generators[0].iter, ast.Name) \
                and x.generators[0].iter.id == name:
            return True
        if isinstance(x, ast.For) and isinstance(x.iter, ast.Name) and x.iter.id == name:
            return True
    return False


def _propagate_generator_temps(root):
    """`t = (E for ...)` bound once and read once, by the statement that follows it, is written at its use (the temporaries the
    inliner makes for generator arguments)."""
    cnt = {}
    for n in ast.walk(root):
        if isinstance(n, ast.Name):
            s_, l_ = cnt.get(n.id, (0, 0))
            cnt[n.id] = (s_ + 1, l_) if isinstance(n.ctx, (ast.Store, ast.Del)) else (s_, l_ + 1)

    def block(stmts):
        out = []
        i = 0
        while i < len(stmts):
            st = stmts[i]
            nxt = stmts[i + 1] if i + 1 < len(stmts) else None
            if isinstance(st, ast.Assign) and len(st.targets) == 1 and isinstance(st.targets[0], ast.Name) \
                    and isinstance(st.value, (ast.GeneratorExp, ast.ListComp)) and cnt.get(st.targets[0].id) == (1, 1) and nxt is not None \
                    and _is_inliner_temp(st.targets[0].id) \
                    and sum(1 for x in ast.walk(nxt) if isinstance(x, ast.Name) and x.id == st.targets[0].id) == 1:
                nm, val = st.targets[0].id, st.value

                class S(ast.NodeTransformer):
                    def visit_Name(self, x):
                        return val if x.id == nm and isinstance(x.ctx, ast.Load) else x
                stmts[i + 1] = S().visit(nxt)
                i += 1
                continue
            for fld in ("body", "orelse", "finalbody"):
                b = getattr(st, fld, None)
                if isinstance(b, list) and b and isinstance(b[0], ast.stmt):
                    setattr(st, fld, block(b))
            for h in getattr(st, "handlers", []) or []:
                h.body = block(h.body)
            out.append(st)
            i += 1
        return out

    root.body = block(root.body)


def _prune_const_ifs(stmts):
    """`if <constant>:` keeps the arm that is taken (everywhere below, nested definitions included): a helper specialised by a
    constant argument (`displacing=True`) reads like the code it stands for."""
    class P(ast.NodeTransformer):
        def _blk(self, b):
            out = []
            for st in b:
                r = self.visit(st)
                if isinstance(r, list):
                    out.extend(r)
                elif r is not None:
                    out.append(r)
            return out

        @staticmethod
        def _boolish(e):
            return isinstance(e, ast.Compare) or (isinstance(e, ast.UnaryOp) and isinstance(e.op, ast.Not))

        def visit_Compare(self, n):
            # `(a in T) is True` -> `a in T`;  `(a in T) is False` -> `not (a in T)`   (the left side is a bool)
            self.generic_visit(n)
            if len(n.ops) == 1 and isinstance(n.ops[0], (ast.Is, ast.IsNot, ast.Eq, ast.NotEq)) and self._boolish(n.left) \
                    and isinstance(n.comparators[0], ast.Constant) and isinstance(n.comparators[0].value, bool):
                same = n.comparators[0].value == isinstance(n.ops[0], (ast.Is, ast.Eq))
                return n.left if same else ast.copy_location(ast.UnaryOp(op=ast.Not(), operand=n.left), n)
            return n

        def visit_If(self, n):
            n.test = self.visit(n.test)
            n.body, n.orelse = self._blk(n.body), self._blk(n.orelse)
            if isinstance(n.test, ast.Constant):
                return (n.body if n.test.value else n.orelse) or []
            if isinstance(n.test, ast.UnaryOp) and isinstance(n.test.op, ast.Not) and isinstance(n.test.operand, ast.Constant):
                return (n.orelse if n.test.operand.value else n.body) or []
            return n

        def generic_visit(self, node):
            for fld in ("body", "orelse", "finalbody"):
                b = getattr(node, fld, None)
                if isinstance(b, list) and b and isinstance(b[0], ast.stmt):
                    setattr(node, fld, self._blk(b) or ([ast.Pass()] if fld == "body" else []))
            for h in getattr(node, "handlers", []) or []:
                h.body = self._blk(h.body) or [ast.Pass()]
            if isinstance(node, ast.expr):
                return ast.NodeTransformer.generic_visit(self, node)
            return node
    return P()._blk(list(stmts))


def _hoist_helper_calls(prog, owner, stmts, local_defs, counter, local_only, top, skip_names=()):
    """A call of a multi-statement repository helper nested inside the expression of a simple statement
    (`return str(cls._to_units(cls._normalized(x)))`) is given a name of its own first (`t = cls._normalized(x)`), so that the
    statement-level inliner can expand it.  Only calls in strictly-evaluated positions are moved."""
    out = []
    for st in stmts:
        if not isinstance(st, (ast.Return, ast.Assign, ast.Expr, ast.AugAssign, ast.AnnAssign)) or getattr(st, "value", None) is None:
            out.append(st)
            continue
        pre = []

        def wanted(c):
            r = resolve_callee(prog, owner, c, local_defs)
            if r is None:
                return False
            callee, _skip = r
            cnode = callee.node if isinstance(callee, FuncInfo) else callee
            if cnode is top.node or cnode.name in skip_names or any(isinstance(x, (ast.Yield, ast.YieldFrom)) for x in ast.walk(cnode)):
                return False
            if local_only and isinstance(callee, FuncInfo) and callee.module is not top.module:
                return False
            if isinstance(callee, FuncInfo) and callee.module is not owner.module:
                return False  # cross-module calls nested in expressions stay named operations
            body = [s_ for s_ in cnode.body if not (isinstance(s_, ast.Expr) and isinstance(s_.value, ast.Constant) and isinstance(s_.value.value, str))]
            if _as_expr(body) is not None:
                return False  # the expression inliner takes care of it
            b2 = _normalise_tail([s_ for s_ in desugar(cnode).body if not (isinstance(s_, ast.Expr) and isinstance(s_.value, ast.Constant))])
            return _return_simple(b2)

        def strict(e, top_level):
            """rewrite e in place; returns the (possibly replaced) node"""
            if isinstance(e, ast.Call):
                e.args = [strict(a, False) for a in e.args]
                for k in e.keywords:
                    k.value = strict(k.value, False)
                if isinstance(e.func, ast.Attribute):
                    e.func.value = strict(e.func.value, False)
                if not top_level and wanted(e):
                    tmp = "hoist__%d" % counter[0]
                    counter[0] += 1
                    pre.append(_loc(ast.Assign(targets=[ast.Name(id=tmp, ctx=ast.Store())], value=e, type_comment=None), st))
                    return _loc(ast.Name(id=tmp, ctx=ast.Load()), e)
                return e
            if isinstance(e, ast.BinOp):
                e.left, e.right = strict(e.left, False), strict(e.right, False)
            elif isinstance(e, ast.UnaryOp):
                e.operand = strict(e.operand, False)
            elif isinstance(e, (ast.Attribute, ast.Starred)):
                e.value = strict(e.value, False)
            elif isinstance(e, ast.Subscript):
                e.value = strict(e.value, False)
            elif isinstance(e, (ast.Tuple, ast.List)):
                e.elts = [strict(x, False) for x in e.elts]
            elif isinstance(e, ast.Compare):
                e.left = strict(e.left, False)
            elif isinstance(e, ast.BoolOp):
                e.values[0] = strict(e.values[0], False)
            elif isinstance(e, ast.IfExp):
                e.test = strict(e.test, False)
            elif isinstance(e, ast.JoinedStr):
                # an f-string evaluates its fields left to right, unconditionally
                for v_ in e.values:
                    if isinstance(v_, ast.FormattedValue):
                        v_.value = strict(v_.value, False)
            return e

        st.value = strict(st.value, isinstance(st, (ast.Return, ast.Expr)) or (
            isinstance(st, ast.Assign) and len(st.targets) == 1 and isinstance(st.targets[0], (ast.Name, ast.Attribute, ast.Tuple))))
        out.extend(pre)
        out.append(st)
    return out


def _inline_captures(root):
    """Closures that read a variable of the enclosing function bound once to a plain attribute chain (`to_xml =
    self._simple_type.to_xml` hoisted out of the closure) read the chain itself instead."""
    from .paths import aliases

    outer = aliases(root)
    if not outer:
        return
    for fn in [n for n in ast.walk(root) if isinstance(n, (ast.FunctionDef, ast.Lambda)) and n is not root]:
        bound = {a.arg for a in fn.args.args + fn.args.posonlyargs + fn.args.kwonlyargs}
        body = fn.body if isinstance(fn.body, list) else [fn.body]
        for b in body:
            for x in ast.walk(b):
                if isinstance(x, ast.Name) and isinstance(x.ctx, ast.Store):
                    bound.add(x.id)
        # only names assigned outside this closure
        inner_assigned = {t.id for b in body for x in ast.walk(b) if isinstance(x, ast.Assign) for t in x.targets if isinstance(t, ast.Name)}
        m = {k: v for k, v in outer.items() if k not in bound and k not in inner_assigned}
        if not m:
            continue

        class Sub(ast.NodeTransformer):
            def visit_Name(self, n):
                if n.id in m and isinstance(n.ctx, ast.Load):
                    return self.visit(copy.deepcopy(m[n.id]))
                return n
        if isinstance(fn.body, list):
            fn.body = [Sub().visit(b) for b in fn.body]
        else:
            fn.body = Sub().visit(fn.body)


def _inline_stmt_exprs(prog, f, st, local_defs, depth, skip_names=()):
    """Apply _ExprInliner to the expressions of a statement (recursing into compound statements, not into nested defs)."""
    inl = _ExprInliner(prog, f, local_defs, depth, skip_names)
    if isinstance(st, (ast.FunctionDef, ast.AsyncFunctionDef)):
        st.body = [_inline_stmt_exprs(prog, f, x, local_defs, depth, skip_names) for x in st.body]
        return st
    for fld, val in list(ast.iter_fields(st)):
        if isinstance(val, ast.expr):
            setattr(st, fld, inl.visit(val))
        elif isinstance(val, list):
            newl = []
            for x in val:
                if isinstance(x, ast.stmt):
                    newl.append(_inline_stmt_exprs(prog, f, x, local_defs, depth, skip_names))
                elif isinstance(x, ast.expr):
                    newl.append(inl.visit(x))
                elif isinstance(x, ast.excepthandler):
                    x.body = [_inline_stmt_exprs(prog, f, y, local_defs, depth, skip_names) for y in x.body]
                    newl.append(x)
                elif isinstance(x, ast.withitem):
                    x.context_expr = inl.visit(x.context_expr)
                    newl.append(x)
                else:
                    newl.append(x)
            setattr(st, fld, newl)
    return st


def walk_expanded(prog, f, depth=3, _seen=None, by_name=False):
    """Yield (node, owner FuncInfo) for f and for every repository function / property reachable from it through self./cls./
    module-level calls and `self.<property>` reads (bounded depth).  by_name: a method call on a receiver of unknown type is
    followed when exactly one class of the program defines a method of that name."""
    seen = _seen if _seen is not None else set()
    if f in seen or depth < 0:
        return
    seen.add(f)
    for n in ast.walk(f.node):
        yield n, f
        g = None
        if isinstance(n, ast.Call):
            r = resolve_callee(prog, f, n)
            if r is not None and isinstance(r[0], FuncInfo):
                g = r[0]
            elif by_name and isinstance(n.func, ast.Attribute) and not n.func.attr.startswith("__"):
                owners = [c_ for c_ in prog.all_classes() if n.func.attr in c_.methods]
                if len(owners) == 1:
                    g = owners[0].methods[n.func.attr]
        elif isinstance(n, ast.Attribute) and isinstance(n.value, ast.Name) and n.value.id in ("self", "cls") and f.cls is not None \
                and isinstance(n.ctx, ast.Load):
            h = prog.lookup(f.cls, n.attr)
            if h is not None and h.kind in ("property", "lazyproperty", "staticmethod", "classmethod", "method"):
                g = h
        if g is not None and g not in seen:
            yield from walk_expanded(prog, g, depth - 1, seen, by_name)
