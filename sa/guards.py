"""Is a keyed dereference `M[K]` dominated by the membership test `K in M`?

Idioms recognised (those the repository uses):
  * conditional expression     M[K] if K in M else D
  * comprehension filter       {.. M[K] .. for .. if K in M}
  * early exit in the block    if K not in M: continue|return|raise   ...   M[K]
  * enclosing positive test    if K in M: ... M[K] ...
Keys and maps are compared by normalised source text after substituting single-assignment local aliases
(`a, b = self._x, y.z` / `a = expr`).
"""

from __future__ import annotations

import ast


def aliases(fnode):
    """name -> source of the expression it was (only once) assigned from."""
    cnt = {}
    val = {}
    for n in ast.walk(fnode):
        if isinstance(n, ast.Assign) and len(n.targets) == 1:
            t = n.targets[0]
            if isinstance(t, ast.Name):
                cnt[t.id] = cnt.get(t.id, 0) + 1
                val[t.id] = n.value
            elif isinstance(t, ast.Tuple) and isinstance(n.value, ast.Tuple) and len(t.elts) == len(n.value.elts):
                for a, b in zip(t.elts, n.value.elts):
                    if isinstance(a, ast.Name):
                        cnt[a.id] = cnt.get(a.id, 0) + 1
                        val[a.id] = b
    return {k: v for k, v in val.items() if cnt[k] == 1 and isinstance(v, (ast.Attribute, ast.Name))}


def norm(node, al):
    class Sub(ast.NodeTransformer):
        def visit_Name(self, n):
            if n.id in al:
                return self.visit(_copy(al[n.id]))
            return n

    return ast.unparse(Sub().visit(_copy(node)))


def _copy(n):
    import copy

    return copy.deepcopy(n)


def _membership(test, al):
    """[(key, map, positive)] facts established when `test` is true."""
    out = []
    if isinstance(test, ast.Compare) and len(test.ops) == 1:
        if isinstance(test.ops[0], ast.In):
            out.append((norm(test.left, al), norm(test.comparators[0], al), True))
        elif isinstance(test.ops[0], ast.NotIn):
            out.append((norm(test.left, al), norm(test.comparators[0], al), False))
    elif isinstance(test, ast.BoolOp) and isinstance(test.op, ast.And):
        for v in test.values:
            out += _membership(v, al)
    elif isinstance(test, ast.UnaryOp) and isinstance(test.op, ast.Not):
        out += [(k, m, not p) for k, m, p in _membership(test.operand, al)]
    return out


def _exits(body):
    return bool(body) and isinstance(body[-1], (ast.Continue, ast.Return, ast.Raise, ast.Break))


def derefs(fnode, map_pred, iter_facts=None, guard_pred=None):
    """Every `M[K]` load in the function whose map expression satisfies map_pred(normalised source).
    Returns [(node, key_src, map_src, guarded: bool, how)].  `iter_facts(generator)` may supply (key, map) pairs known for the
    elements a comprehension draws from its iterable (a filtering generator helper)."""
    al = aliases(fnode)
    res = []

    def visit(node, facts):
        # facts: set of (key, map) known present
        if isinstance(node, ast.IfExp):
            f2 = set(facts)
            for k, m, p in _membership(node.test, al):
                if p:
                    f2.add((k, m))
            visit(node.test, facts)
            visit(node.body, f2)
            f3 = set(facts)
            for k, m, p in _membership(node.test, al):
                if not p:
                    f3.add((k, m))
            visit(node.orelse, f3)
            return
        if isinstance(node, (ast.ListComp, ast.SetComp, ast.GeneratorExp, ast.DictComp)):
            f2 = set(facts)
            for g in node.generators:
                visit(g.iter, f2)
                if iter_facts is not None:
                    f2 |= set(iter_facts(g))
                for c in g.ifs:
                    for k, m, p in _membership(c, al):
                        if p:
                            f2.add((k, m))
                    visit(c, f2)
            if isinstance(node, ast.DictComp):
                visit(node.key, f2)
                visit(node.value, f2)
            else:
                visit(node.elt, f2)
            return
        if isinstance(node, ast.Subscript) and isinstance(node.ctx, ast.Load):
            m = norm(node.value, al)
            if map_pred(m) and not isinstance(node.slice, ast.Slice):
                k = norm(node.slice, al)
                # guard_pred: the membership that licenses the read is in *another* map (`k in reader` before `types[k]`)
                ok_ = (k, m) in facts if guard_pred is None else any(k_ == k and guard_pred(m_) for k_, m_ in facts)
                res.append((node, k, m, ok_, "membership test dominates" if ok_ else "unguarded"))
        if isinstance(node, (ast.FunctionDef, ast.AsyncFunctionDef, ast.Lambda)) and node is not fnode:
            block(node.body, set(facts)) if not isinstance(node, ast.Lambda) else visit(node.body, facts)
            return
        for c in ast.iter_child_nodes(node):
            if isinstance(c, ast.stmt):
                continue
            visit(c, facts)

    def block(stmts, facts):
        facts = set(facts)
        for st in stmts:
            if isinstance(st, ast.If):
                visit(st.test, facts)
                pos = {(k, m) for k, m, p in _membership(st.test, al) if p}
                neg = {(k, m) for k, m, p in _membership(st.test, al) if not p}
                block(st.body, facts | pos)
                block(st.orelse, facts | neg)
                if _exits(st.body):
                    facts |= neg
                if st.orelse and _exits(st.orelse):
                    facts |= pos
            elif isinstance(st, (ast.For, ast.While)):
                visit(st.iter if isinstance(st, ast.For) else st.test, facts)
                block(st.body, facts)
                block(st.orelse, facts)
            elif isinstance(st, ast.With):
                for it in st.items:
                    visit(it.context_expr, facts)
                block(st.body, facts)
            elif isinstance(st, ast.Try):
                block(st.body, facts)
                for h in st.handlers:
                    block(h.body, facts)
                block(st.orelse, facts)
                block(st.finalbody, facts)
            elif isinstance(st, (ast.FunctionDef, ast.AsyncFunctionDef)):
                block(st.body, facts)
            else:
                visit(st, facts)

    block(fnode.body, set())
    return res
