"""Engine C — the xmlchemy declarations as data, and a structural check of the mechanism itself.

From engine A: tag -> class registry, per class the (inherited) child and attribute declarations
with folded successors, the hand-written overrides that suppress generation, and the recognised
semantics of `insert_element_before` (tag-order or document-order successor search).
"""

from __future__ import annotations

import ast

from .pysrc import CallValue, ClassInfo, ClassRef, Unknown, dotted
from .report import AnalysisError

CHILD_KINDS = ("ZeroOrOne", "ZeroOrMore", "OneOrMore", "OneAndOnlyOne", "ZeroOrOneChoice")
ATTR_KINDS = ("OptionalAttribute", "RequiredAttribute")


class ChildDecl:
    def __init__(self, cls, prop, kind, tags, successors, node, group=None):
        self.cls = cls  # declaring ClassInfo
        self.prop = prop
        self.kind = kind
        self.tags = tags  # list of nsptagnames (1 unless choice group)
        self.successors = successors  # tuple[str] | Unknown
        self.node = node
        self.group = group

    @property
    def line(self):
        return self.node.lineno

    def __repr__(self):
        return "<%s %s.%s %s>" % (self.kind, self.cls.name, self.prop, self.tags)


class AttrDecl:
    def __init__(self, cls, prop, kind, attr, st, default, has_default, node):
        self.cls = cls
        self.prop = prop
        self.kind = kind
        self.attr = attr
        self.st = st  # ClassRef | Unknown
        self.default = default
        self.has_default = has_default
        self.node = node

    @property
    def line(self):
        return self.node.lineno

    def __repr__(self):
        return "<%s %s.%s @%s>" % (self.kind, self.cls.name, self.prop, self.attr)


ALL_PARTS = ("insert", "adder", "get_or_add", "remover", "change_to", "install", "attr")


def mechanism_gate(ctx, model, parts=ALL_PARTS):
    """A check that relies on `parts` of the generated-method mechanism stops (ANALYSIS-ERROR) when one of them is written in a way
    the model does not recognise; checks that do not rely on it are unaffected."""
    for part, what in model.mechanism_errors:
        if part in parts:
            ctx.error("xmlchemy:%s" % part, what)


def choice_prop(tag):
    return tag.split(":", 1)[1] if ":" in tag else tag


class Model:
    def __init__(self, prog):
        self.prog = prog
        self.registry = []  # (nsptag, ClassInfo, module, lineno)
        self._own = {}
        self._collect_registrations()
        self.semantics = None
        self.mechanism_problems = []  # (severity, where, what): established deviations of the mechanism
        self.mechanism_errors = []    # (part, what): a part of the mechanism whose shape is not recognised; reported (exit 2) only
        #                               by the checks that rely on that part - see mechanism_gate()
        self.add_to_class_guarded = True
        self._check_mechanism()
        if self.semantics is None:
            self.semantics = "doc-order"   # placeholder: the "insert" part is in mechanism_errors, checks using it stop there

    # -- registrations ---------------------------------------------------------------------------
    def _collect_registrations(self):
        from .desugar import unroll_block

        for m in self.prog.modules.values():
            body = m.tree.body
            # module-level helpers that register (`def register_element_classes(cls, tags): for t in tags: register_element_cls(t, cls)`)
            helpers = {st.name: st for st in body if isinstance(st, ast.FunctionDef) and st.name != "register_element_cls" and any(
                isinstance(c, ast.Call) and dotted(c.func) == "register_element_cls" for c in ast.walk(st))}

            def registers(node):
                return any(isinstance(c, ast.Call) and dotted(c.func) in (("register_element_cls",) + tuple(helpers)) for c in ast.walk(node))

            if any(isinstance(st, ast.For) and registers(st) for st in body) or any(
                    isinstance(st, ast.Expr) and isinstance(st.value, ast.Call) and dotted(st.value.func) in helpers for st in body):
                import copy

                from .inline import _Subst

                body = unroll_block(body, m.tree)  # data-driven registration: `for tag, cls in (...): register_element_cls(tag, cls)`
                out = []
                for st in body:
                    if isinstance(st, ast.Expr) and isinstance(st.value, ast.Call) and dotted(st.value.func) in helpers:
                        fd = helpers[dotted(st.value.func)]
                        params = [a.arg for a in fd.args.args]
                        mapping = dict(zip(params, st.value.args))
                        mapping.update({k.arg: k.value for k in st.value.keywords if k.arg})
                        hb = [x for x in fd.body if not (isinstance(x, ast.Expr) and isinstance(x.value, ast.Constant))]
                        new = [_Subst(mapping, {}).visit(copy.deepcopy(x)) for x in hb]
                        for x in new:
                            ast.copy_location(x, st)
                            for y in ast.walk(x):
                                if not hasattr(y, "lineno") or True:
                                    y.lineno = st.lineno
                        out.extend(unroll_block(new, ast.Module(body=new, type_ignores=[])))
                    else:
                        out.append(st)
                body = out
            for st in body:
                if isinstance(st, ast.For) and any(isinstance(c, ast.Call) and dotted(c.func) == "register_element_cls" for c in ast.walk(st)):
                    # a table that is not a plain literal (`{**dict.fromkeys(("c:max", "c:min"), CT_Double), ...}.items()`): folded
                    it = st.iter
                    pairs = None
                    if isinstance(it, ast.Call) and isinstance(it.func, ast.Attribute) and it.func.attr == "items" and not it.args:
                        tb = self.prog.const(it.func.value, m)
                        if isinstance(tb, dict):
                            pairs = list(tb.items())
                    else:
                        tb = self.prog.const(it, m)
                        if isinstance(tb, (tuple, list)) and all(isinstance(x, (tuple, list)) and len(x) == 2 for x in tb):
                            pairs = list(tb)
                    body_ = [x for x in st.body if not (isinstance(x, ast.Expr) and isinstance(x.value, ast.Constant))]
                    simple = len(body_) == 1 and isinstance(body_[0], ast.Expr) and isinstance(body_[0].value, ast.Call) \
                        and dotted(body_[0].value.func) == "register_element_cls" and isinstance(st.target, ast.Tuple) and len(st.target.elts) == 2 \
                        and [dotted(a) for a in body_[0].value.args] == [dotted(e) for e in st.target.elts] and not body_[0].value.keywords
                    if pairs is not None and simple and all(isinstance(k, str) and isinstance(v, ClassRef) for k, v in pairs):
                        for k, v in pairs:
                            self.registry.append((k, v.cls, m, st.lineno))
                        continue
                    raise AnalysisError("%s:%d registration loop over something that is not a literal" % (m.relpath, st.lineno))
                if isinstance(st, ast.Expr) and isinstance(st.value, ast.Call):
                    c = st.value
                    if dotted(c.func) == "register_element_cls" and len(c.args) == 2:
                        tag = self.prog.const(c.args[0], m)
                        cls = self.prog.const(c.args[1], m)
                        if not isinstance(tag, str) or not isinstance(cls, ClassRef):
                            raise AnalysisError(
                                "%s:%d register_element_cls arguments do not fold" % (m.relpath, st.lineno))
                        self.registry.append((tag, cls.cls, m, st.lineno))

    def classes_for_tag(self, tag):
        return [c for t, c, _, _ in self.registry if t == tag]

    def class_for_tag(self, tag):
        r = None
        for t, c, _, _ in self.registry:
            if t == tag:
                r = c  # last registration wins (dict assignment)
        return r

    def tags_for_class(self, cls):
        return [t for t, c, _, _ in self.registry if c is cls]

    def is_oxml_class(self, cls):
        return any(c.name == "BaseOxmlElement" for c in self.prog.mro(cls))

    def oxml_classes(self):
        return [c for c in self.prog.all_classes() if self.is_oxml_class(c) and c.name != "BaseOxmlElement"]

    # -- declarations ----------------------------------------------------------------------------
    def own_decls(self, cls):
        if cls in self._own:
            return self._own[cls]
        childs, attrs = [], []
        for name, v, node in self.prog.class_body_values(cls):
            if not isinstance(v, CallValue):
                continue
            kind = v.func.split(".")[-1]
            if kind in CHILD_KINDS:
                if kind == "ZeroOrOneChoice":
                    ch = v.args[0] if v.args else v.kwargs.get("choices")
                    succ = v.args[1] if len(v.args) > 1 else v.kwargs.get("successors", ())
                    tags = []
                    if isinstance(ch, (tuple, list)):
                        for c in ch:
                            if isinstance(c, CallValue) and c.func.split(".")[-1] == "Choice" and c.args \
                                    and isinstance(c.args[0], str):
                                tags.append(c.args[0])
                            else:
                                raise AnalysisError("%s:%d unfoldable Choice in %s.%s" % (
                                    cls.file, node.lineno, cls.name, name))
                    else:
                        raise AnalysisError("%s:%d unfoldable choices in %s.%s" % (
                            cls.file, node.lineno, cls.name, name))
                    succ = tuple(succ) if isinstance(succ, (tuple, list)) else succ
                    childs.append(ChildDecl(cls, name, kind, tags, succ, node, group=name))
                else:
                    tag = v.args[0] if v.args else v.kwargs.get("nsptagname")
                    succ = v.args[1] if len(v.args) > 1 else v.kwargs.get("successors", ())
                    if not isinstance(tag, str):
                        raise AnalysisError("%s:%d tag of %s.%s does not fold" % (
                            cls.file, node.lineno, cls.name, name))
                    succ = tuple(succ) if isinstance(succ, (tuple, list)) else succ
                    if kind != "OneAndOnlyOne" and (isinstance(succ, Unknown) or not all(
                            isinstance(s, str) for s in succ)):
                        raise AnalysisError("%s:%d successors of %s.%s do not fold (%r)" % (
                            cls.file, node.lineno, cls.name, name, succ))
                    childs.append(ChildDecl(cls, name, kind, [tag], succ, node))
            elif kind in ATTR_KINDS:
                attr = v.args[0] if v.args else v.kwargs.get("attr_name")
                st = v.args[1] if len(v.args) > 1 else v.kwargs.get("simple_type")
                has_default = len(v.args) > 2 or "default" in v.kwargs
                default = v.args[2] if len(v.args) > 2 else v.kwargs.get("default")
                if not isinstance(attr, str):
                    raise AnalysisError("%s:%d attribute name of %s.%s does not fold" % (
                        cls.file, node.lineno, cls.name, name))
                attrs.append(AttrDecl(cls, name, kind, attr, st, default, has_default, node))
        self._own[cls] = (childs, attrs)
        return self._own[cls]

    def child_decls(self, cls):
        """Effective child declarations of cls by prop name (nearest in MRO wins for the getter)."""
        out = {}
        for c in reversed(self.prog.mro(cls)):
            for d in self.own_decls(c)[0]:
                out[d.prop] = d
        return list(out.values())

    def attr_decls(self, cls):
        out = {}
        for c in reversed(self.prog.mro(cls)):
            for d in self.own_decls(c)[1]:
                out[d.prop] = d
        return list(out.values())

    def child_decl_for_tag(self, cls, tag):
        for d in self.child_decls(cls):
            if tag in d.tags:
                return d
        return None

    def effective(self, cls, method_name):
        """What `cls.<method_name>` is at run time for a generated-method name.

        Returns ("explicit", FuncInfo) | ("generated", ChildDecl, tag) | None.  Mirrors
        `_add_to_class`: a generated method is only installed when no attribute of that name exists on
        the class or its bases *at class creation time*, so the oldest definition along the reversed MRO
        wins over later re-declarations unless a class body defines the name explicitly.
        """
        mro = self.prog.mro(cls)
        # explicit definitions take precedence in normal attribute lookup order, but generation in a
        # subclass is suppressed by an inherited (generated or explicit) attribute.
        for c in mro:
            if method_name in c.methods:
                # an explicit def in c shadows anything generated in bases; anything generated in a
                # subclass of c under this name was suppressed (hasattr True)
                return ("explicit", c.methods[method_name])
            gen = self._generated_by(c, method_name)
            if gen is not None:
                # suppressed if any base of c already has the name
                for b in self.prog.mro(c)[1:]:
                    if method_name in b.methods or self._generated_by(b, method_name) is not None:
                        break
                else:
                    return ("generated",) + gen
        return None

    def _generated_by(self, c, name):
        for d in self.own_decls(c)[0]:
            for tag in d.tags:
                p = choice_prop(tag) if d.kind == "ZeroOrOneChoice" else d.prop
                names = generated_names(d.kind, p)
                if name in names:
                    return (d, tag, names[name])
            if d.kind == "ZeroOrOneChoice" and name == "_remove_%s" % d.prop:
                return (d, None, "remove_group")
        return None

    # -- mechanism shape -------------------------------------------------------------------------
    def _part(self, part):
        """Context manager: an AnalysisError inside is recorded against `part` of the mechanism and the other parts are still read."""
        model = self

        class _Cm:
            def __enter__(self_):
                return self_

            def __exit__(self_, et, ev, tb):
                if et is not None and issubclass(et, AnalysisError):
                    model.mechanism_errors.append((part, str(ev)))
                    return True
                return False
        return _Cm()

    def _check_mechanism(self):
        prog = self.prog
        m = prog.modules.get("pptx.oxml.xmlchemy")
        if m is None:
            raise AnalysisError("anchor vanished: pptx.oxml.xmlchemy")
        base = m.classes.get("BaseOxmlElement")
        if base is None:
            raise AnalysisError("anchor vanished: BaseOxmlElement")
        P = self.mechanism_problems

        with self._part('insert'):
            # (1) first_child_found_in: classify search order
            # the methods may live in a mixin / base of BaseOxmlElement: looked up through the MRO, read in canonical form
            from .inline import expand as _exp_m
            from .sink import sink as _sink_m

            f = prog.lookup(base, "first_child_found_in")
            ieb = prog.lookup(base, "insert_element_before")
            if ieb is None:
                raise AnalysisError("anchor vanished: BaseOxmlElement.insert_element_before")
            search = None
            if f is not None:
                search = self._classify_search(_for_else_to_next(f.node))
            # (2) insert_element_before, read with `for ...: if ...: ...; break / else:` written as next(...) + if/else
            import copy as _copy

            ieb_src = ieb
            ieb = _copy.copy(ieb)
            try:
                ieb.node = _sink_m(_exp_m(prog, ieb_src, depth=2, local_only=True))
            except Exception:  # noqa: BLE001 - fall back to the source form
                ieb.node = ieb_src.node
            ieb.node = _for_else_to_next(ieb.node)
            muts = _method_calls(ieb.node)
            args = ieb.params
            elm = args[1] if len(args) > 1 else None
            varargs = ieb.node.args.vararg.arg if ieb.node.args.vararg else None
            ok = False
            succ_var = None
            inline_search = None
            for st in ieb.node.body:
                if isinstance(st, ast.Assign) and isinstance(st.value, ast.Call) and len(st.targets) == 1 and isinstance(st.targets[0], ast.Name):
                    d = dotted(st.value.func) or ""
                    if d.startswith("self.") and d.count(".") == 1 and len(st.value.args) == 1:
                        a0 = st.value.args[0]
                        passes = (isinstance(a0, ast.Starred) and dotted(a0.value) == varargs) or dotted(a0) == varargs
                        helper = prog.lookup(base, d.split(".")[1])
                        if passes and helper is not None:
                            hs = self._classify_search(helper.node)
                            if hs is not None:
                                search = hs
                                succ_var = st.targets[0].id
            if succ_var is None:
                inline_search = self._classify_search(ieb.node, allow_inline=True)
                if inline_search:
                    search = inline_search[0]
                    succ_var = inline_search[1]
            if succ_var is None or search is None:
                deep = [dotted(n.func) for n in ast.walk(ieb.node) if isinstance(n, ast.Call) and dotted(n.func) in (
                    "self.iter", "self.iterdescendants", "self.xpath", "self.iterfind", "self.findall", "self.getiterator")]
                if deep:
                    self.semantics = "doc-order"
                    P.append(("violation", "%s:%d" % (m.relpath, ieb.line),
                              "insert_element_before looks for the successor with %s, which is not restricted to direct children: "
                              "a descendant of an earlier sibling can be taken as the successor" % deep[0]))
                    return
                raise AnalysisError("xmlchemy.insert_element_before: successor search not recognised")
            self.semantics = search  # "tag-order" | "doc-order"
            # find `if <succ> is not None: succ.addprevious(elm) else: self.append(elm)`
            shape = _find_insert_shape(ieb.node, succ_var, elm)
            if shape is None:
                # distinguish recognisably wrong forms
                names = [n for n, _ in muts]
                if "addnext" in names or ("append" in names and "addprevious" not in names) or "insert" in names:
                    P.append(("violation", "%s:%d" % (m.relpath, ieb.line),
                              "insert_element_before does not insert the child immediately before the first "
                              "successor found (calls: %s)" % ", ".join(sorted(set(names)))))
                else:
                    raise AnalysisError("xmlchemy.insert_element_before: insertion shape not recognised")
            bad = [n for n, _ in muts if n in ("addnext", "remove", "clear", "extend", "replace")]
            if bad and shape is not None:
                P.append(("violation", "%s:%d" % (m.relpath, ieb.line),
                          "insert_element_before performs extra tree mutation: %s" % bad))

        with self._part('remover'):
            # (3) remove_all removes every match
            ra = prog.lookup(base, "remove_all")
            if ra is None:
                raise AnalysisError("anchor vanished: BaseOxmlElement.remove_all")
            rcalls = [n for n, _ in _method_calls(ra.node)]
            if "findall" not in rcalls and "iterchildren" not in rcalls and "xpath" not in rcalls:
                if "find" in rcalls:
                    P.append(("violation", "%s:%d" % (m.relpath, ra.line),
                              "remove_all removes only the first matching child (find, not findall)"))
                else:
                    raise AnalysisError("xmlchemy.remove_all: shape not recognised")
            if "remove" not in rcalls:
                P.append(("violation", "%s:%d" % (m.relpath, ra.line), "remove_all never calls remove"))
            loops = [n for n in ast.walk(ra.node) if isinstance(n, ast.For)]
            if len(loops) < 2 and "findall" in rcalls:
                # for tagname in tagnames: for child in findall: remove  (two loops) or equivalent
                if not any(isinstance(n, (ast.ListComp, ast.GeneratorExp)) for n in ast.walk(ra.node)):
                    P.append(("violation", "%s:%d" % (m.relpath, ra.line),
                              "remove_all does not iterate over every match of every tag"))

        # (4) generated closures in the declaration classes
        def inner(clsname, meth, innername):
            c = m.classes.get(clsname)
            if c is None or meth not in c.methods:
                raise AnalysisError("anchor vanished: xmlchemy.%s.%s" % (clsname, meth))
            # the closure is read in the canonical form of its enclosing method: helper methods of the declaration class that
            # the closure calls (`self._replace_group_member(obj)`) are inlined
            from .inline import expand as _expand

            try:
                outer = _expand(self.prog, c.methods[meth], local_only=True)
            except Exception:  # noqa: BLE001 - fall back to the source form
                outer = c.methods[meth].node
            for n in ast.walk(outer):
                if isinstance(n, ast.FunctionDef) and n.name == innername:
                    return n, c.methods[meth]
            # by role: the closure the method installs on the element class, whatever it is called (a shared generator helper
            # inlined into this method keeps the helper's name for it)
            installed = [x.args[1].id for x in ast.walk(outer) if isinstance(x, ast.Call) and dotted(x.func) == "self._add_to_class"
                         and len(x.args) == 2 and isinstance(x.args[1], ast.Name)]
            installed += [x.args[2].id for x in ast.walk(outer) if isinstance(x, ast.Call) and dotted(x.func) == "setattr"
                          and len(x.args) == 3 and isinstance(x.args[2], ast.Name) and dotted(x.args[0]) == "self._element_cls"]
            defs = [n for n in ast.walk(outer) if isinstance(n, ast.FunctionDef) and n is not outer and n.name in installed]
            if len(defs) == 1:
                return defs[0], c.methods[meth]
            raise AnalysisError("anchor vanished: xmlchemy.%s.%s.%s" % (clsname, meth, innername))

        with self._part('insert'):
            # inserter passes the declaration's successors
            node, fi = inner("_BaseChildElement", "_add_inserter", "_insert_child")
            okc = False
            for n in ast.walk(node):
                if isinstance(n, ast.Call) and isinstance(n.func, ast.Attribute) and n.func.attr == "insert_element_before":
                    if len(n.args) == 2 and isinstance(n.args[1], ast.Starred) and dotted(n.args[1].value) == "self._successors" \
                            and isinstance(n.args[0], ast.Name) and n.args[0].id == node.args.args[1].arg:
                        okc = True
            if not okc:
                P.append(("violation", "%s:%d" % (m.relpath, node.lineno),
                          "_insert_child does not call insert_element_before(child, *self._successors)"))
        with self._part('adder'):
            # adder: new -> setattr* -> insert ; returns child
            node, fi = inner("_BaseChildElement", "_add_adder", "_add_child")
            order = []
            for n in ast.walk(_norm_closure(node)):
                if isinstance(n, ast.Call):
                    d = dotted(n.func)
                    dn = _dyn_name(n)
                    if d == "setattr":
                        order.append(("setattr", (n.lineno, n.col_offset)))
                    elif d == "insert_method" or dn == "_insert_method_name":
                        order.append(("insert", (n.lineno, n.col_offset)))
                    elif d == "new_method" or dn == "_new_method_name":
                        order.append(("new", (n.lineno, n.col_offset)))
            order.sort(key=lambda x: x[1])
            seq = [o[0] for o in order]
            if seq != ["new", "setattr", "insert"]:
                if "insert" not in seq:
                    P.append(("violation", "%s:%d" % (m.relpath, node.lineno), "_add_child never inserts the new child"))
                elif seq.index("insert") < seq.index("setattr") if "setattr" in seq else False:
                    P.append(("violation", "%s:%d" % (m.relpath, node.lineno),
                              "_add_child inserts the child before its attributes are set (a rejected value "
                              "would leave a half-initialised child attached)"))
                else:
                    raise AnalysisError("xmlchemy._add_child: shape not recognised %s" % seq)
        with self._part('get_or_add'):
            # get_or_add: adds only when the getter returned None
            node, fi = inner("ZeroOrOne", "_add_get_or_adder", "get_or_add_child")
            d_, cps = _closure_paths(node)
            child_src = None
            for n_ in ast.walk(d_):
                if isinstance(n_, ast.Assign) and isinstance(n_.value, ast.Call) and dotted(n_.value.func) == "getattr" \
                        and dotted(n_.value.args[1]) == "self._prop_name":
                    child_src = n_.targets[0].id
            bad_add = False
            adds = 0
            for fs, calls, pth in cps:
                known_none = any(a[0] == "none" and a[1] == child_src and a[2] is True for a in fs)
                if "_add_method_name" in calls:
                    adds += 1
                    if not known_none:
                        bad_add = True
                elif known_none:
                    bad_add = True  # absent child and nothing added
            if child_src is None or adds == 0:
                if not _add_guarded_by_none_test(node, "add_method"):
                    raise AnalysisError("xmlchemy.get_or_add_child: shape not recognised")
            elif bad_add:
                P.append(("violation", "%s:%d" % (m.relpath, node.lineno),
                          "get_or_add_child adds a child without first testing that none is present"))
        with self._part('remover'):
            # remover
            node, fi = inner("ZeroOrOne", "_add_remover", "_remove_child")
            if not any(isinstance(n, ast.Call) and isinstance(n.func, ast.Attribute) and n.func.attr == "remove_all"
                       and n.args and dotted(n.args[0]) == "self._nsptagname" for n in ast.walk(node)):
                P.append(("violation", "%s:%d" % (m.relpath, node.lineno), "_remove_child does not remove_all(own tag)"))
        with self._part('change_to'):
            # get_or_change_to: getter, early return, remove group, add
            node, fi = inner("Choice", "_add_get_or_change_to_method", "get_or_change_to_child")
            d_, cps = _closure_paths(node)
            child_src = None
            for n_ in ast.walk(d_):
                if isinstance(n_, ast.Assign) and isinstance(n_.value, ast.Call) and dotted(n_.value.func) == "getattr" \
                        and dotted(n_.value.args[1]) == "self._prop_name":
                    child_src = n_.targets[0].id
            if child_src is None or not cps:
                raise AnalysisError("xmlchemy.get_or_change_to_child: shape not recognised")
            present_ok = absent_ok = False
            wrong = None
            for fs, calls, pth in cps:
                if any(a[0] == "none" and a[1] == child_src and a[2] is False for a in fs):
                    if calls:
                        wrong = "changes the document although the member is present (%s)" % calls
                    elif pth.end == "return" and dotted(pth.end_node.value) == child_src:
                        present_ok = True
                elif any(a[0] == "none" and a[1] == child_src and a[2] is True for a in fs) or not any(a[0] == "none" for a in fs):
                    if calls == ["_remove_group_method_name", "_add_method_name"]:
                        absent_ok = True
                    else:
                        wrong = "must remove the whole choice group and then add (found %s)" % calls
            if wrong:
                P.append(("violation", "%s:%d" % (m.relpath, node.lineno), "get_or_change_to_child " + wrong))
            elif not present_ok:
                P.append(("violation", "%s:%d" % (m.relpath, node.lineno),
                          "get_or_change_to_child does not return the existing member unchanged"))
            elif not absent_ok:
                raise AnalysisError("xmlchemy.get_or_change_to_child: absent-member path not recognised")
            # group remover covers every member
            node, fi = inner("ZeroOrOneChoice", "_add_group_remover", "_remove_choice_group")
            okc = False
            for n in ast.walk(node):
                if isinstance(n, ast.For) and dotted(n.iter) == "self._member_nsptagnames":
                    for c in ast.walk(n):
                        if isinstance(c, ast.Call) and isinstance(c.func, ast.Attribute) and c.func.attr == "remove_all" \
                                and c.args and dotted(c.args[0]) == (n.target.id if isinstance(n.target, ast.Name) else None):
                            okc = True
                # remove_all accepts several tag names: one call with the whole member list
                if isinstance(n, ast.Call) and isinstance(n.func, ast.Attribute) and n.func.attr == "remove_all" and len(n.args) == 1 \
                        and isinstance(n.args[0], ast.Starred) and dotted(n.args[0].value) == "self._member_nsptagnames":
                    okc = True
            if not okc:
                P.append(("violation", "%s:%d" % (m.relpath, node.lineno),
                          "_remove_choice_group does not remove_all for every member tag"))
            zc = m.classes["ZeroOrOneChoice"]
            mn = zc.methods.get("_member_nsptagnames")
            if mn is None or not any(isinstance(n, (ast.ListComp, ast.GeneratorExp)) and
                                     dotted(n.generators[0].iter) == "self._choices" and not n.generators[0].ifs
                                     for n in ast.walk(mn.node)):
                raise AnalysisError("xmlchemy.ZeroOrOneChoice._member_nsptagnames: shape not recognised")
        with self._part('install'):
            # _add_to_class guard
            atc = m.classes["_BaseChildElement"].methods.get("_add_to_class")
            if atc is None:
                raise AnalysisError("anchor vanished: _BaseChildElement._add_to_class")
            self.add_to_class_guarded = any(
                isinstance(n, ast.Call) and dotted(n.func) == "hasattr" for n in ast.walk(atc.node))
            # metaclass dispatch
            meta = m.classes.get("MetaOxmlElement")
            if meta is None:
                raise AnalysisError("anchor vanished: MetaOxmlElement")
            disp = set()
            for n in ast.walk(meta.node):
                if isinstance(n, ast.Tuple):
                    names = [dotted(e) for e in n.elts]
                    if all(names) and set(names) & set(CHILD_KINDS):
                        disp = set(names)
            need = set(CHILD_KINDS) | set(ATTR_KINDS)
            if disp != need:
                P.append(("violation", "%s:%d" % (m.relpath, meta.line),
                          "metaclass does not dispatch declaration kinds %s" % sorted(need - disp)))
            # populate_class_members per kind installs the expected generators
            expect = {
                "ZeroOrOne": {"_add_getter", "_add_creator", "_add_inserter", "_add_adder", "_add_get_or_adder", "_add_remover"},
                "ZeroOrMore": {"_add_list_getter", "_add_creator", "_add_inserter", "_add_adder"},
                "OneOrMore": {"_add_list_getter", "_add_creator", "_add_inserter", "_add_adder", "_add_public_adder"},
                "OneAndOnlyOne": {"_add_getter"},
                "Choice": {"_add_getter", "_add_creator", "_add_inserter", "_add_adder", "_add_get_or_change_to_method"},
                "ZeroOrOneChoice": {"_add_choice_getter", "_add_group_remover"},
            }
            for k, want in expect.items():
                c = m.classes.get(k)
                pm = c.methods.get("populate_class_members") if c else None
                if k == "Choice" and c is not None:
                    # the populating method of a group member is the one the group calls on each of its choices, whatever its name
                    zpm_ = m.classes.get("ZeroOrOneChoice").methods.get("populate_class_members") if m.classes.get("ZeroOrOneChoice") else None
                    for lp_ in [x for x in ast.walk(zpm_.node) if isinstance(x, ast.For)] if zpm_ else []:
                        for c_ in ast.walk(lp_):
                            if isinstance(c_, ast.Call) and isinstance(c_.func, ast.Attribute) and isinstance(lp_.target, ast.Name) \
                                    and dotted(c_.func.value) == lp_.target.id and c_.func.attr in c.methods:
                                pm = c.methods[c_.func.attr]
                                self.choice_populator = c_.func.attr
                if pm is None:
                    raise AnalysisError("anchor vanished: xmlchemy.%s.populate_class_members" % k)
                have = {n.func.attr for n in ast.walk(pm.node)
                        if isinstance(n, ast.Call) and isinstance(n.func, ast.Attribute)
                        and dotted(n.func.value) == "self" and n.func.attr.startswith("_add_")}
                if not want <= have:
                    P.append(("violation", "%s:%d" % (m.relpath, pm.line),
                              "%s.populate_class_members no longer installs %s" % (k, sorted(want - have))))
            # Choice gets the *group's* successors
            pm = m.classes["ZeroOrOneChoice"].methods["populate_class_members"]
            # whatever the signature: the argument bound to the parameter Choice.populate_class_members stores as its own
            # `_successors` is the group's `self._successors`
            cpm = m.classes["Choice"].methods.get(getattr(self, "choice_populator", "populate_class_members"))
            succ_param = None
            for n in ast.walk(cpm.node) if cpm else []:
                if isinstance(n, ast.Assign) and dotted(n.targets[0]) == "self._successors" and isinstance(n.value, ast.Name):
                    succ_param = n.value.id
            okc, seen_call = False, False
            cps = ([a.arg for a in cpm.node.args.args][1:] if cpm else [])
            for n in ast.walk(pm.node):
                if isinstance(n, ast.Call) and isinstance(n.func, ast.Attribute) and n.func.attr == getattr(self, "choice_populator", "populate_class_members") \
                        and dotted(n.func.value) not in ("super()",) and not (isinstance(n.func.value, ast.Call)):
                    seen_call = True
                    bound = dict(zip(cps, n.args))
                    bound.update({k.arg: k.value for k in n.keywords if k.arg})
                    if succ_param is not None and succ_param in bound and dotted(bound[succ_param]) == "self._successors":
                        okc = True
            if succ_param is None or not seen_call:
                self.mechanism_errors.append(("insert", "%s:%d how choice members receive their successors is not recognised" % (m.relpath, pm.line)))
            elif not okc:
                P.append(("violation", "%s:%d" % (m.relpath, pm.line),
                          "choice members are not given the group's successors"))
        with self._part('attr'):
            # attribute setters: to_xml before obj.set; Optional deletes on default
            for k in ATTR_KINDS:
                c = m.classes.get(k)
                s = prog.lookup(c, "_setter") if c else None   # possibly inherited from BaseAttribute, with hooks overridden per kind
                if s is None:
                    raise AnalysisError("anchor vanished: xmlchemy.%s._setter" % k)
                from .inline import expand, with_self_class

                sx = expand(prog, with_self_class(s, c))  # helper / hook methods of the descriptor inlined into the closure
                # `return self._write_value`: the setter *is* that method (a bound method handed out as the callable)
                rets_ = [n.value for n in ast.walk(sx) if isinstance(n, ast.Return) and n.value is not None]
                if len(rets_) == 1 and isinstance(rets_[0], ast.Attribute) and dotted(rets_[0].value) == "self":
                    bm = prog.lookup(c, rets_[0].attr)
                    if bm is not None and bm.kind == "method":
                        sx = expand(prog, with_self_class(bm, c))
                order_ = []
                for n in ast.walk(sx):
                    if isinstance(n, ast.Call) and isinstance(n.func, ast.Attribute) and n.func.attr in ("to_xml", "set"):
                        order_.append(((getattr(n, "lineno", 0), getattr(n, "col_offset", 0)), n.func.attr, n))
                # the value handed to obj.set must be (an alias of) a to_xml result
                toxml = [o for o in order_ if o[1] == "to_xml"]
                sets = [o for o in order_ if o[1] == "set"]
                conv_names = set()
                for n in ast.walk(sx):
                    if isinstance(n, ast.Assign) and isinstance(n.value, ast.Call) and isinstance(n.value.func, ast.Attribute) \
                            and n.value.func.attr == "to_xml" and isinstance(n.targets[0], ast.Name):
                        conv_names.add(n.targets[0].id)
                via = all(len(o[2].args) == 2 and ((isinstance(o[2].args[1], ast.Name) and o[2].args[1].id in conv_names) or (
                    isinstance(o[2].args[1], ast.Call) and isinstance(o[2].args[1].func, ast.Attribute) and o[2].args[1].func.attr == "to_xml"))
                    for o in sets)
                if not toxml or not sets or not via:
                    P.append(("violation", "%s:%d" % (m.relpath, s.line),
                              "%s setter writes the attribute without converting through to_xml first" % k))

    def _classify_search(self, fnode, allow_inline=False):
        """tag-order: `for t in tagnames: c = self.find(qn(t)); if c is not None: return c`
        doc-order: `for c in self[.iterchildren()]: if c.tag in <set of qn(tagnames)>: ...` either as a
        loop or as `next((c for c in self if c.tag in names), None)`.  The membership set must be built
        from the function's *tagnames (through qn)."""
        varargs = fnode.args.vararg.arg if fnode.args.vararg else None
        if varargs is None and len(fnode.args.args) == 2:
            varargs = fnode.args.args[1].arg  # helper taking the tag names as one sequence parameter

        def names_from_varargs(expr):
            # the set tested against must derive from the varargs: directly, or a local assigned from a
            # comprehension over it
            if isinstance(expr, ast.Name):
                for a in ast.walk(fnode):
                    if isinstance(a, ast.Assign) and len(a.targets) == 1 and isinstance(a.targets[0], ast.Name) \
                            and a.targets[0].id == expr.id:
                        return any(isinstance(n, ast.Name) and n.id == varargs for n in ast.walk(a.value))
                return expr.id == varargs
            return any(isinstance(n, ast.Name) and n.id == varargs for n in ast.walk(expr))

        def child_iter(it):
            src = dotted(it) or (dotted(it.func) if isinstance(it, ast.Call) else None)
            return src in ("self", "self.iterchildren", "self.getchildren")

        for n in ast.walk(fnode):
            # lazy pipeline: (self.find(qn(t)) for t in tagnames) consumed by next(c for c in ... if c is not None)
            if isinstance(n, (ast.GeneratorExp, ast.ListComp)) and len(n.generators) == 1 and isinstance(n.generators[0].iter, ast.Name) \
                    and n.generators[0].iter.id == varargs and isinstance(n.elt, ast.Call) and dotted(n.elt.func) == "self.find" and not allow_inline:
                return "tag-order"
            if isinstance(n, ast.For):
                it = n.iter
                if isinstance(it, ast.Name) and it.id == varargs and isinstance(n.target, ast.Name):
                    for c in ast.walk(n):
                        if isinstance(c, ast.Call) and dotted(c.func) == "self.find":
                            res = None
                            for a in ast.walk(n):
                                if isinstance(a, ast.Assign) and a.value is c and isinstance(a.targets[0], ast.Name):
                                    res = a.targets[0].id
                            return ("tag-order", res) if allow_inline else "tag-order"
                if child_iter(it) and isinstance(n.target, ast.Name):
                    tgt = n.target.id
                    for c in ast.walk(n):
                        if isinstance(c, ast.Compare) and len(c.ops) == 1 and isinstance(c.ops[0], ast.In) \
                                and dotted(c.left) == "%s.tag" % tgt and names_from_varargs(c.comparators[0]):
                            res = tgt
                            for a in ast.walk(n):
                                if isinstance(a, ast.Assign) and isinstance(a.value, ast.Name) and a.value.id == tgt \
                                        and isinstance(a.targets[0], ast.Name):
                                    res = a.targets[0].id
                            return ("doc-order", res) if allow_inline else "doc-order"
            if isinstance(n, ast.Return) and not allow_inline and isinstance(n.value, ast.Call) and dotted(n.value.func) == "next" \
                    and len(n.value.args) == 2 and isinstance(n.value.args[0], ast.GeneratorExp) \
                    and isinstance(n.value.args[1], ast.Constant) and n.value.args[1].value is None:
                # a search helper that hands out `next((c for c in self if c.tag in names), None)`
                g = n.value.args[0]
                if len(g.generators) == 1 and child_iter(g.generators[0].iter) and isinstance(g.generators[0].target, ast.Name) \
                        and isinstance(g.elt, ast.Name) and g.elt.id == g.generators[0].target.id and len(g.generators[0].ifs) == 1:
                    c = g.generators[0].ifs[0]
                    if isinstance(c, ast.Compare) and len(c.ops) == 1 and isinstance(c.ops[0], ast.In) \
                            and dotted(c.left) == "%s.tag" % g.generators[0].target.id and names_from_varargs(c.comparators[0]):
                        return "doc-order"
            if isinstance(n, ast.Assign) and isinstance(n.value, ast.Call) and dotted(n.value.func) == "next" \
                    and n.value.args and isinstance(n.value.args[0], ast.GeneratorExp) and len(n.targets) == 1 \
                    and isinstance(n.targets[0], ast.Name):
                g = n.value.args[0]
                if len(g.generators) == 1 and child_iter(g.generators[0].iter) and \
                        isinstance(g.generators[0].target, ast.Name) and isinstance(g.elt, ast.Name) \
                        and g.elt.id == g.generators[0].target.id and len(g.generators[0].ifs) == 1:
                    tgt = g.generators[0].target.id
                    c = g.generators[0].ifs[0]
                    dflt_none = len(n.value.args) == 2 and isinstance(n.value.args[1], ast.Constant) \
                        and n.value.args[1].value is None
                    if dflt_none and isinstance(c, ast.Compare) and len(c.ops) == 1 and isinstance(c.ops[0], ast.In) \
                            and dotted(c.left) == "%s.tag" % tgt and names_from_varargs(c.comparators[0]):
                        return ("doc-order", n.targets[0].id) if allow_inline else "doc-order"
        return None


def _for_else_to_next(fnode):
    """`for v in IT: if C: BODY; break` [`else: ELSE`]  ->  `v = next((v for v in IT if C), None)`; `if v is not None: BODY else: ELSE`
    (the children of an element are never None, so finding none and finding None coincide).  Returns a rewritten deep copy."""
    import copy

    f = copy.deepcopy(fnode)

    class R(ast.NodeTransformer):
        def visit_For(self, n):
            self.generic_visit(n)
            if isinstance(n.target, ast.Name) and len(n.body) == 1 and isinstance(n.body[0], ast.If) and not n.body[0].orelse \
                    and n.body[0].body and isinstance(n.body[0].body[-1], ast.Break) \
                    and sum(isinstance(x, (ast.Break, ast.Continue)) for x in ast.walk(n)) == 1:
                v = n.target.id
                cond = n.body[0].test
                gen = ast.GeneratorExp(elt=ast.Name(id=v, ctx=ast.Load()), generators=[ast.comprehension(
                    target=ast.Name(id=v, ctx=ast.Store()), iter=n.iter, ifs=[cond], is_async=0)])
                asg = ast.Assign(targets=[ast.Name(id=v, ctx=ast.Store())], value=ast.Call(
                    func=ast.Name(id="next", ctx=ast.Load()), args=[gen, ast.Constant(value=None)], keywords=[]), type_comment=None)
                test = ast.Compare(left=ast.Name(id=v, ctx=ast.Load()), ops=[ast.IsNot()], comparators=[ast.Constant(value=None)])
                iff = ast.If(test=test, body=n.body[0].body[:-1] or [ast.Pass()], orelse=list(n.orelse))
                return [ast.copy_location(asg, n), ast.copy_location(iff, n)]
            return n

        def generic_visit(self, node):
            for fld in ("body", "orelse", "finalbody"):
                b = getattr(node, fld, None)
                if isinstance(b, list) and b and isinstance(b[0], ast.stmt):
                    out = []
                    for st in b:
                        r = self.visit(st)
                        out.extend(r if isinstance(r, list) else [r])
                    setattr(node, fld, out)
            return node

    R().generic_visit(f)
    ast.fix_missing_locations(f)
    return f


def generated_names(kind, p):
    if kind == "ZeroOrOne":
        return {"_new_" + p: "new", "_insert_" + p: "insert", "_add_" + p: "add",
                "get_or_add_" + p: "get_or_add", "_remove_" + p: "remove"}
    if kind == "ZeroOrMore":
        return {"_new_" + p: "new", "_insert_" + p: "insert", "_add_" + p: "add"}
    if kind == "OneOrMore":
        return {"_new_" + p: "new", "_insert_" + p: "insert", "_add_" + p: "add", "add_" + p: "public_add"}
    if kind == "ZeroOrOneChoice":
        return {"_new_" + p: "new", "_insert_" + p: "insert", "_add_" + p: "add",
                "get_or_change_to_" + p: "get_or_change_to"}
    return {}


def _method_calls(fnode):
    out = []
    for n in ast.walk(fnode):
        if isinstance(n, ast.Call) and isinstance(n.func, ast.Attribute):
            out.append((n.func.attr, n))
    return out


def _is_none_test(test, var, positive):
    """`var is not None` (positive) / `var is None` (not positive)."""
    if isinstance(test, ast.Compare) and len(test.ops) == 1 and isinstance(test.left, ast.Name) \
            and test.left.id == var and isinstance(test.comparators[0], ast.Constant) \
            and test.comparators[0].value is None:
        if positive and isinstance(test.ops[0], ast.IsNot):
            return True
        if not positive and isinstance(test.ops[0], ast.Is):
            return True
    return False


def _calls_in(stmts, recv, meth, arg):
    for st in stmts:
        for n in ast.walk(st):
            if isinstance(n, ast.Call) and isinstance(n.func, ast.Attribute) and n.func.attr == meth \
                    and dotted(n.func.value) == recv and len(n.args) == 1 and dotted(n.args[0]) == arg:
                return True
    return False


def _find_insert_shape(fnode, succ, elm):
    """Path rule: on every path where `succ` is known to be None the element is appended to self (and addprevious is not
    called); on every path where it is known not to be None, succ.addprevious(elm) is called (and append is not); every path
    decides one way or the other."""
    from .desugar import desugar
    from .paths import enum_paths, facts

    d = desugar(fnode)
    pths = [p for p in enum_paths(d.body) if p.end in ("return", "fall")]
    if pths:
        ok = True
        for p in pths:
            fs = facts(p)
            is_none = any(a[0] == "none" and a[1] == succ and a[2] is True for a in fs)
            not_none = any(a[0] == "none" and a[1] == succ and a[2] is False for a in fs) or any(
                a[0] == "truthy" and a[1] == succ and a[2] is True for a in fs)
            stm = p.stmts()
            app = _calls_in(stm, "self", "append", elm)
            prev = _calls_in(stm, succ, "addprevious", elm)
            if is_none and app and not prev:
                continue
            if not_none and prev and not app:
                continue
            ok = False
        if ok:
            return "ok"
    for n in ast.walk(fnode):
        if isinstance(n, ast.If):
            if _is_none_test(n.test, succ, True):
                if _calls_in(n.body, succ, "addprevious", elm) and _calls_in(n.orelse, "self", "append", elm):
                    return "ok"
                # early-return form: if succ is not None: succ.addprevious(elm); return ...; self.append(elm)
                if _calls_in(n.body, succ, "addprevious", elm) and any(isinstance(s, ast.Return) for s in n.body):
                    rest = fnode.body[fnode.body.index(n) + 1:] if n in fnode.body else []
                    if _calls_in(rest, "self", "append", elm):
                        return "ok"
            if _is_none_test(n.test, succ, False):
                if _calls_in(n.body, "self", "append", elm) and _calls_in(n.orelse, succ, "addprevious", elm):
                    return "ok"
                if _calls_in(n.body, "self", "append", elm) and any(isinstance(s, ast.Return) for s in n.body):
                    rest = fnode.body[fnode.body.index(n) + 1:] if n in fnode.body else []
                    if _calls_in(rest, succ, "addprevious", elm):
                        return "ok"
    return None


def _add_guarded_by_none_test(fnode, addname):
    """Every call of `addname()` lies inside `if <child> is None:`."""
    found = False
    for n in ast.walk(fnode):
        if isinstance(n, ast.Call) and dotted(n.func) == addname:
            found = True
    if not found:
        return False
    guarded = set()
    for n in ast.walk(fnode):
        if isinstance(n, ast.If) and isinstance(n.test, ast.Compare) and len(n.test.ops) == 1 \
                and isinstance(n.test.ops[0], ast.Is) and isinstance(n.test.comparators[0], ast.Constant) \
                and n.test.comparators[0].value is None:
            for st in n.body:
                for c in ast.walk(st):
                    if isinstance(c, ast.Call) and dotted(c.func) == addname:
                        guarded.add(id(c))
    allc = [id(n) for n in ast.walk(fnode) if isinstance(n, ast.Call) and dotted(n.func) == addname]
    return all(c in guarded for c in allc)


def _early_return_when_present(fnode):
    for n in fnode.body:
        if isinstance(n, ast.If) and isinstance(n.test, ast.Compare) and len(n.test.ops) == 1 \
                and isinstance(n.test.ops[0], ast.IsNot) and isinstance(n.test.comparators[0], ast.Constant) \
                and n.test.comparators[0].value is None and any(isinstance(s, ast.Return) for s in n.body):
            return True
    return False


# -- normalised view of the generated closures --------------------------------------------------------------------------
def _norm_closure(fnode):
    """Desugared copy of a closure in which single-assignment locals bound to `getattr(obj, self._X)` (method lookups by
    name) are substituted at their uses, so that `m = getattr(obj, self._add_method_name); child = m()` and
    `child = getattr(obj, self._add_method_name)()` read the same."""
    import copy

    from .desugar import desugar

    d = desugar(fnode)
    cnt, val = {}, {}
    for n in ast.walk(d):
        if isinstance(n, ast.Assign) and len(n.targets) == 1 and isinstance(n.targets[0], ast.Name):
            cnt[n.targets[0].id] = cnt.get(n.targets[0].id, 0) + 1
            val[n.targets[0].id] = n
    sub = {k: a.value for k, a in val.items() if cnt[k] == 1 and isinstance(a.value, ast.Call) and dotted(a.value.func) == "getattr"
           and len(a.value.args) == 2 and (dotted(a.value.args[1]) or "").startswith("self._") and (dotted(a.value.args[1]) or "").endswith("_method_name")}

    class T(ast.NodeTransformer):
        def visit_Name(self, n):
            if n.id in sub and isinstance(n.ctx, ast.Load):
                return copy.deepcopy(sub[n.id])
            return n

        def visit_Assign(self, n):
            if len(n.targets) == 1 and isinstance(n.targets[0], ast.Name) and n.targets[0].id in sub:
                return None
            return self.generic_visit(n)

        def _blk(self, b):
            out = []
            for st in b:
                r = self.visit(st)
                if r is not None:
                    out.append(r)
            return out or [ast.Pass()]

        def generic_visit(self, node):
            for fld in ("body", "orelse", "finalbody"):
                b = getattr(node, fld, None)
                if isinstance(b, list) and b and isinstance(b[0], ast.stmt):
                    setattr(node, fld, self._blk(b) if fld == "body" else [x for x in (self.visit(st) for st in b) if x is not None])
            return super().generic_visit(node) if not isinstance(node, (ast.FunctionDef, ast.If, ast.For, ast.While, ast.With, ast.Try)) else node

    T().visit(d)
    ast.fix_missing_locations(d)
    return d


def _dyn_name(call):
    """'_add_method_name' for a call `getattr(obj, self._add_method_name)(...)`, else None."""
    f = call.func
    if isinstance(f, ast.Call) and dotted(f.func) == "getattr" and len(f.args) == 2:
        d = dotted(f.args[1]) or ""
        if d.startswith("self."):
            return d[5:]
    return None


def _dyn_calls_in(stmts):
    out = []
    for st in stmts:
        for n in ast.walk(st):
            if isinstance(n, ast.Call) and _dyn_name(n):
                out.append((getattr(n, "lineno", 0), getattr(n, "col_offset", 0), _dyn_name(n)))
    return [x[2] for x in sorted(out)]


def _closure_paths(fnode):
    from .paths import enum_paths, facts

    d = _norm_closure(fnode)
    res = []
    for p in enum_paths(d.body):
        if p.end not in ("return", "fall"):
            continue
        stm = p.stmts() + ([p.end_node] if p.end_node is not None else [])
        res.append((facts(p), _dyn_calls_in(stm), p))
    return d, res
