"""Canonicalise a function body so that equivalent surface styles look the same to the structural rules.

`desugar(fnode)` returns a deep copy of the function with these rewrites applied (each is semantics-preserving):

  * `return A if C else B`           ->  if C: return A / else: return B
  * `x = A if C else B`              ->  if C: x = A / else: x = B                (x a plain name)
  * `a = b = v`                      ->  b = v ; a = b   (targets right-to-left as Python does; v evaluated once: via the
                                         right-most target, which is sound when that target is a plain name or attribute)
  * `a, b = x, y`                    ->  a = x ; b = y   when no target name occurs in the right-hand side
  * `return any(T for v in it)`      ->  for v in it: if T: return True / return False        (all(): dual)
  * `return next((E for v in it if c), D)`  ->  for v in it: if c: return E / return D
  * `return bool(E)` / `not not E`   kept (no rewrite)
  * `yield from (E for v in it if c)` / `yield from <iterable>`  ->  for v in it: [if c:] yield E
  * `n = A ; while n > B: BODY ; n -= 1`  ->  `for n in range(A, B, -1): BODY`   (counting loops; see _counting_whiles)
  * `for a, b in ((x1, y1), (x2, y2)): BODY`  ->  BODY[a:=x1, b:=y1] ; BODY[a:=x2, b:=y2]   (literal of pure elements, possibly held
                                         in a local bound once; no break/continue/else)
  * `map(f, it)` / `filter(p, it)` / `itertools.filterfalse(p, it)` with attrgetter / lambda / a function  ->  generator expressions
  * `for v in (E for w in IT if C): BODY`  ->  `for w in IT: if C: v = E; BODY`      (a loop over a generator is the generator's loop)
  * `setattr(o, "name", v)`          ->  o.name = v
  * `if (x := E) is not None:`       ->  x = E ; if x is not None:      (walrus evaluated first in the test)
  * `for ...: ... else:` untouched
  * `if C: return X` + fall-through `return Y` untouched (paths handle it)
  * `elif` chains are already nested Ifs in the AST

The copy keeps `lineno` of the originating statement on every synthesised node, so reports still point at the source.
"""

from __future__ import annotations

import ast
import copy


def _loc(new, old):
    for n in ast.walk(new):
        if not hasattr(n, "lineno"):
            n.lineno = getattr(old, "lineno", 0)
            n.col_offset = getattr(old, "col_offset", 0)
            n.end_lineno = getattr(old, "end_lineno", None)
            n.end_col_offset = getattr(old, "end_col_offset", None)
    return new


def _names(node):
    return {x.id for x in ast.walk(node) if isinstance(x, ast.Name)}


class _D(ast.NodeTransformer):
    def _block(self, stmts):
        out = []
        for st in stmts:
            r = self.visit(st)
            if isinstance(r, list):
                out.extend(r)
            elif r is not None:
                out.append(r)
        return _counting_whiles(out)

    def generic_visit(self, node):
        for fld in ("body", "orelse", "finalbody"):
            b = getattr(node, fld, None)
            if isinstance(b, list) and b and isinstance(b[0], ast.stmt):
                setattr(node, fld, self._block(b))
        for h in getattr(node, "handlers", []) or []:
            h.body = self._block(h.body)
        return node

    def visit_FunctionDef(self, node):
        node.body = self._block(node.body)
        return node

    visit_AsyncFunctionDef = visit_FunctionDef

    def _next_loop(self, node):
        """return next((E for v in it if c), D)  ->  for v in it: if c: return E / return D"""
        v = node.value
        if isinstance(v, ast.Call) and isinstance(v.func, ast.Name) and v.func.id == "next" and len(v.args) == 2 and not v.keywords \
                and isinstance(v.args[0], ast.GeneratorExp) and len(v.args[0].generators) == 1 and not v.args[0].generators[0].is_async:
            g = v.args[0].generators[0]
            body = [ast.Return(value=v.args[0].elt)]
            for c in reversed(g.ifs):
                body = [ast.If(test=c, body=body, orelse=[])]
            loop = ast.For(target=g.target, iter=g.iter, body=body, orelse=[], type_comment=None)
            return [_loc(loop, node), _loc(ast.Return(value=v.args[1]), node)]
        # no default: exhaustion raises StopIteration
        if isinstance(v, ast.Call) and isinstance(v.func, ast.Name) and v.func.id == "next" and len(v.args) == 1 and not v.keywords \
                and isinstance(v.args[0], ast.GeneratorExp) and len(v.args[0].generators) == 1 and not v.args[0].generators[0].is_async:
            g = v.args[0].generators[0]
            body = [ast.Return(value=v.args[0].elt)]
            for c in reversed(g.ifs):
                body = [ast.If(test=c, body=body, orelse=[])]
            loop = ast.For(target=g.target, iter=g.iter, body=body, orelse=[], type_comment=None)
            return [_loc(loop, node), _loc(ast.Raise(exc=ast.Call(func=ast.Name(id="StopIteration", ctx=ast.Load()), args=[], keywords=[]), cause=None), node)]
        return None

    def visit_Return(self, node):
        nl = self._next_loop(node)
        if nl is not None:
            out = []
            for x in nl:
                r = self.visit_For(x) if isinstance(x, ast.For) else x
                out.extend(r if isinstance(r, list) else [r])
            return out
        v = node.value
        # return A or B  (A a call)  ->  t = A; if t: return t; return B      (B is evaluated only when A is falsy)
        if isinstance(v, ast.BoolOp) and isinstance(v.op, ast.Or) and len(v.values) == 2 and isinstance(v.values[0], ast.Call):
            tmp = "or__%d" % getattr(node, "lineno", 0)
            a_ = _loc(ast.Assign(targets=[ast.Name(id=tmp, ctx=ast.Store())], value=v.values[0], type_comment=None), node)
            i_ = _loc(ast.If(test=ast.Name(id=tmp, ctx=ast.Load()), body=[_loc(ast.Return(value=ast.Name(id=tmp, ctx=ast.Load())), node)], orelse=[]), node)
            r_ = self.visit(_loc(ast.Return(value=v.values[1]), node))
            return [a_, i_] + (r_ if isinstance(r_, list) else [r_])
        if isinstance(v, ast.Call) and isinstance(v.func, ast.Name) and len(v.args) == 1 and not v.keywords and isinstance(v.args[0], ast.IfExp):
            # W(a if c else b)  ->  W(a) if c else W(b)   (a wrapper named by a plain name: evaluating the name has no effect)
            ie = v.args[0]
            v = _loc(ast.IfExp(test=ie.test, body=_loc(ast.Call(func=copy.deepcopy(v.func), args=[ie.body], keywords=[]), node),
                               orelse=_loc(ast.Call(func=copy.deepcopy(v.func), args=[ie.orelse], keywords=[]), node)), node)
        if isinstance(v, ast.IfExp):
            a = self.visit(_loc(ast.Return(value=v.body), node))
            b = self.visit(_loc(ast.Return(value=v.orelse), node))
            return _loc(ast.If(test=v.test, body=a if isinstance(a, list) else [a], orelse=b if isinstance(b, list) else [b]), node)
        if isinstance(v, ast.Call) and isinstance(v.func, ast.Name) and v.func.id in ("any", "all") and len(v.args) == 1 \
                and isinstance(v.args[0], (ast.GeneratorExp, ast.ListComp)) and len(v.args[0].generators) == 1 and not v.keywords:
            g = v.args[0].generators[0]
            is_any = v.func.id == "any"
            test = v.args[0].elt if is_any else ast.UnaryOp(op=ast.Not(), operand=v.args[0].elt)
            inner = ast.If(test=test, body=[ast.Return(value=ast.Constant(value=is_any))], orelse=[])
            for c in reversed(g.ifs):
                inner = ast.If(test=c, body=[inner], orelse=[])
            loop = ast.For(target=g.target, iter=g.iter, body=[inner], orelse=[], type_comment=None)
            return [_loc(loop, node), _loc(ast.Return(value=ast.Constant(value=not is_any)), node)]
        return node

    def visit_Assign(self, node):
        if len(node.targets) > 1:
            # a = b = v  ->  b = v ; a = b   (only when the right-most target can be re-read without effect)
            last = node.targets[-1]
            if isinstance(node.value, (ast.Name, ast.Constant)) or (isinstance(node.value, ast.Attribute) and isinstance(node.value.value, ast.Name)):
                # a simple value can be repeated: a = v ; b = v  (left to right, as Python assigns)
                res = []
                for t in node.targets:
                    r = self.visit_Assign(_loc(ast.Assign(targets=[t], value=copy.deepcopy(node.value), type_comment=None), node))
                    res.extend(r if isinstance(r, list) else [r])
                return res
            if isinstance(last, (ast.Name, ast.Attribute)):
                out = [_loc(ast.Assign(targets=[last], value=node.value, type_comment=None), node)]
                src = copy.deepcopy(last)
                for n in ast.walk(src):
                    if hasattr(n, "ctx"):
                        n.ctx = ast.Load()
                for t in reversed(node.targets[:-1]):
                    out.append(_loc(ast.Assign(targets=[t], value=copy.deepcopy(src), type_comment=None), node))
                res = []
                for o in out:
                    r = self.visit_Assign(o)
                    res.extend(r if isinstance(r, list) else [r])
                return res
            return node
        t, v = node.targets[0], node.value
        if isinstance(t, ast.Tuple) and isinstance(v, ast.Tuple) and len(t.elts) == len(v.elts) \
                and all(isinstance(e, (ast.Name, ast.Attribute)) or (isinstance(e, ast.Tuple) and all(isinstance(x, ast.Name) for x in e.elts))
                        for e in t.elts) and not any(isinstance(e, ast.Starred) for e in v.elts):
            tn = set()
            for e in t.elts:
                tn |= {ast.unparse(x) for x in (e.elts if isinstance(e, ast.Tuple) else [e])}
            rhs_src = {ast.unparse(x) for x in ast.walk(v) if isinstance(x, (ast.Name, ast.Attribute))}
            if not (tn & rhs_src):
                out = []
                for a, b in zip(t.elts, v.elts):
                    r = self.visit_Assign(_loc(ast.Assign(targets=[a], value=b, type_comment=None), node))
                    out.extend(r if isinstance(r, list) else [r])
                return out
        # a, b = (E(x, y) for x, y in zip(P, Q))  ->  a = E(P[0], Q[0]); b = E(P[1], Q[1])   (component-wise computation)
        if isinstance(t, ast.Tuple) and all(isinstance(e, ast.Name) for e in t.elts) and isinstance(v, (ast.GeneratorExp, ast.ListComp)) \
                and len(v.generators) == 1 and not v.generators[0].ifs and isinstance(v.generators[0].iter, ast.Call) \
                and isinstance(v.generators[0].iter.func, ast.Name) and v.generators[0].iter.func.id == "zip" and not v.generators[0].iter.keywords \
                and all(isinstance(a, (ast.Name, ast.Attribute)) for a in v.generators[0].iter.args) \
                and isinstance(v.generators[0].target, ast.Tuple) and all(isinstance(e, ast.Name) for e in v.generators[0].target.elts) \
                and len(v.generators[0].target.elts) == len(v.generators[0].iter.args):
            g = v.generators[0]
            out = []
            for i, tgt in enumerate(t.elts):
                m = {e.id: ast.Subscript(value=copy.deepcopy(a), slice=ast.Constant(value=i), ctx=ast.Load()) for e, a in zip(g.target.elts, g.iter.args)}

                class Sub(ast.NodeTransformer):
                    def visit_Name(self_, n):
                        return copy.deepcopy(m[n.id]) if n.id in m and isinstance(n.ctx, ast.Load) else n
                out.append(_loc(ast.Assign(targets=[tgt], value=Sub().visit(copy.deepcopy(v.elt)), type_comment=None), node))
            return out
        # lo, hi = sorted((a, b))  ->  lo = min(a, b); hi = max(a, b)
        if isinstance(t, ast.Tuple) and len(t.elts) == 2 and all(isinstance(e, ast.Name) for e in t.elts) and isinstance(v, ast.Call) \
                and isinstance(v.func, ast.Name) and v.func.id == "sorted" and len(v.args) == 1 and not v.keywords:
            pair = v.args[0]
            if isinstance(pair, ast.Name) and pair.id in getattr(self, "lits", {}):
                pair = self.lits[pair.id]
            if isinstance(pair, (ast.Tuple, ast.List)) and len(pair.elts) == 2 and _pure_lit(pair):
                mk = lambda fn_, tgt_: _loc(ast.Assign(targets=[tgt_], value=ast.Call(func=ast.Name(id=fn_, ctx=ast.Load()), args=[
                    copy.deepcopy(pair.elts[0]), copy.deepcopy(pair.elts[1])], keywords=[]), type_comment=None), node)   # noqa: E731
                return [mk("min", t.elts[0]), mk("max", t.elts[1])]
        if isinstance(v, ast.IfExp) and (isinstance(t, ast.Name) or (
                isinstance(t, ast.Tuple) and all(isinstance(e, ast.Name) for e in t.elts)
                and not ({e.id for e in t.elts} & {x.id for x in ast.walk(v.test) if isinstance(x, ast.Name)}))):
            a = self.visit_Assign(_loc(ast.Assign(targets=[copy.deepcopy(t)], value=v.body, type_comment=None), node))
            b = self.visit_Assign(_loc(ast.Assign(targets=[copy.deepcopy(t)], value=v.orelse, type_comment=None), node))
            return _loc(ast.If(test=v.test, body=a if isinstance(a, list) else [a], orelse=b if isinstance(b, list) else [b]), node)
        return node

    def visit_If(self, node):
        """`if (x := E) <test>:`  ->  `x = E` ; `if x <test>:`   (the walrus is the first thing the test evaluates)"""
        self.generic_visit(node)
        t = node.test
        holder, attr = None, None
        if isinstance(t, ast.NamedExpr):
            holder, attr = node, "test"
        elif isinstance(t, ast.Compare) and isinstance(t.left, ast.NamedExpr):
            holder, attr = t, "left"
        elif isinstance(t, ast.UnaryOp) and isinstance(t.op, ast.Not) and isinstance(t.operand, ast.NamedExpr):
            holder, attr = t, "operand"
        elif isinstance(t, ast.UnaryOp) and isinstance(t.op, ast.Not) and isinstance(t.operand, ast.Compare) and isinstance(t.operand.left, ast.NamedExpr):
            holder, attr = t.operand, "left"
        if holder is not None:
            ne = getattr(holder, attr)
            setattr(holder, attr, _loc(ast.Name(id=ne.target.id, ctx=ast.Load()), node))
            return [_loc(ast.Assign(targets=[ast.Name(id=ne.target.id, ctx=ast.Store())], value=ne.value, type_comment=None), node), node]
        return node

    lits = {}  # name -> literal tuple/list it is bound to once (set per function by desugar())

    def visit_For(self, node):
        """Unroll `for a, b in ((x1, y1), (x2, y2), ...)` over a literal of pure elements (data-driven statement lists); fuse a
        loop over a generator expression with the generator: `for v in (E for w in IT if C): BODY` -> `for w in IT: if C: v = E; BODY`."""
        it = node.iter
        if isinstance(it, ast.Name) and it.id in getattr(self, "gens", {}):
            it = self.gens[it.id]   # a generator expression held in a local that is bound once and iterated once
            if isinstance(it, ast.Call):
                # ... or a counter / range made once and consumed here: the loop runs over it directly
                node = _loc(ast.For(target=node.target, iter=it, body=node.body, orelse=node.orelse, type_comment=None), node)
        if isinstance(it, ast.GeneratorExp) and 1 <= len(it.generators) <= 3 and not node.orelse and not any(g.is_async for g in it.generators) \
                and isinstance(node.target, (ast.Name, ast.Tuple)) and (len(it.generators) == 1 or not _own_jump(node.body)):
            tnames = {x.id for g in it.generators for x in ast.walk(g.target) if isinstance(x, ast.Name)}
            vnames = {x.id for x in ast.walk(node.target) if isinstance(x, ast.Name)}
            body_names = {x.id for b in node.body for x in ast.walk(b) if isinstance(x, ast.Name)}
            if not (tnames & body_names - vnames) or tnames == vnames:
                inner = list(node.body)
                if not (isinstance(it.elt, ast.Name) and isinstance(node.target, ast.Name) and it.elt.id == node.target.id):
                    inner = [_loc(ast.Assign(targets=[node.target], value=it.elt, type_comment=None), node)] + inner
                for g in reversed(it.generators):
                    for c in reversed(g.ifs):
                        inner = [_loc(ast.If(test=c, body=inner, orelse=[]), node)]
                    inner = [_loc(ast.For(target=g.target, iter=g.iter, body=inner, orelse=[], type_comment=None), node)]
                return self.visit_For(inner[0])
        if isinstance(it, ast.Name) and it.id in self.lits:
            it = self.lits[it.id]
        # D.items() over a literal dict: the (key, value) pairs in order
        if isinstance(it, ast.Call) and isinstance(it.func, ast.Attribute) and it.func.attr == "items" and not it.args:
            d = it.func.value
            if isinstance(d, ast.Name) and d.id in self.lits:
                d = self.lits[d.id]
            if isinstance(d, ast.Dict) and all(k is not None for k in d.keys):
                it = ast.Tuple(elts=[ast.Tuple(elts=[k, v], ctx=ast.Load()) for k, v in zip(d.keys, d.values)], ctx=ast.Load())
        if isinstance(it, ast.Dict) and all(k is not None for k in it.keys):
            it = ast.Tuple(elts=list(it.keys), ctx=ast.Load())
        # zip(<literal>, <literal>, ...) of equally long literals: the tuple of their rows
        if isinstance(it, ast.Call) and isinstance(it.func, ast.Name) and it.func.id == "zip" and len(it.args) >= 2 and not it.keywords:
            cols = [self.lits.get(a.id, a) if isinstance(a, ast.Name) else a for a in it.args]
            if all(isinstance(c, (ast.Tuple, ast.List)) and not any(isinstance(e, ast.Starred) for e in c.elts) for c in cols) \
                    and len({len(c.elts) for c in cols}) == 1:
                it = ast.Tuple(elts=[ast.Tuple(elts=[c.elts[i] for c in cols], ctx=ast.Load()) for i in range(len(cols[0].elts))], ctx=ast.Load())
        if isinstance(it, (ast.Tuple, ast.List)) and 0 < len(it.elts) <= 64 and not node.orelse and _pure_lit(it):
            tgt = node.target
            names = [tgt.id] if isinstance(tgt, ast.Name) else [e.id for e in tgt.elts] if isinstance(tgt, ast.Tuple) and all(
                isinstance(e, ast.Name) for e in tgt.elts) else None
            ok = names is not None and not _own_jump(node.body) and not any(
                isinstance(x, ast.Name) and x.id in names and isinstance(x.ctx, (ast.Store, ast.Del)) for b in node.body for x in ast.walk(b))
            if ok and isinstance(tgt, ast.Tuple):
                ok = all(isinstance(e, (ast.Tuple, ast.List)) and len(e.elts) == len(names) for e in it.elts)
            if ok:
                out = []
                for e in it.elts:
                    m = {names[0]: e} if isinstance(tgt, ast.Name) else dict(zip(names, e.elts))

                    class Sub(ast.NodeTransformer):
                        def visit_Name(self_, n):
                            return copy.deepcopy(m[n.id]) if n.id in m and isinstance(n.ctx, ast.Load) else n
                    for b in node.body:
                        out.append(_loc(Sub().visit(copy.deepcopy(b)), node))
                return self._block(out)
        return self.generic_visit(node)

    def visit_Call(self, node):
        return node

    def _unstar(self, call):
        """f(*t) with t bound once to a literal tuple of pure elements  ->  f(t0, t1, ...)"""
        if not any(isinstance(a, ast.Starred) for a in call.args):
            return
        new = []
        for a in call.args:
            v = a.value if isinstance(a, ast.Starred) else None
            if isinstance(v, ast.Name) and v.id in getattr(self, "lits", {}):
                v = self.lits[v.id]
            if isinstance(a, ast.Starred) and isinstance(v, (ast.Tuple, ast.List)) and _pure_lit(v):
                new.extend(copy.deepcopy(e) for e in v.elts)
            else:
                new.append(a)
        call.args = new

    def visit_Expr(self, node):
        if isinstance(node.value, ast.Call):
            self._unstar(node.value)
        v = node.value
        # setattr(o, "name", v)  ->  o.name = v
        if isinstance(v, ast.Call) and isinstance(v.func, ast.Name) and v.func.id == "setattr" and len(v.args) == 3 and not v.keywords \
                and isinstance(v.args[1], ast.Constant) and isinstance(v.args[1].value, str) and v.args[1].value.isidentifier():
            return _loc(ast.Assign(targets=[ast.Attribute(value=v.args[0], attr=v.args[1].value, ctx=ast.Store())], value=v.args[2], type_comment=None), node)
        if isinstance(v, ast.YieldFrom):
            src = v.value
            if isinstance(src, (ast.GeneratorExp, ast.ListComp)) and len(src.generators) >= 1:
                body = [ast.Expr(value=ast.Yield(value=src.elt))]
                for g in reversed(src.generators):
                    for c in reversed(g.ifs):
                        body = [ast.If(test=c, body=body, orelse=[])]
                    body = [ast.For(target=g.target, iter=g.iter, body=body, orelse=[], type_comment=None)]
                return _loc(body[0], node)
            # yield from <any iterable>  ->  for v in <iterable>: yield v
            var = "_yf%d" % getattr(node, "lineno", 0)
            loop = ast.For(target=ast.Name(id=var, ctx=ast.Store()), iter=src,
                           body=[ast.Expr(value=ast.Yield(value=ast.Name(id=var, ctx=ast.Load())))], orelse=[], type_comment=None)
            return _loc(loop, node)
        return node


def _pure_lit(e):
    if isinstance(e, (ast.Tuple, ast.List)):
        return all(_pure_lit(x) for x in e.elts)
    if isinstance(e, ast.Dict):
        return all(k is not None and _pure_lit(k) for k in e.keys) and all(_pure_lit(v) for v in e.values)
    if isinstance(e, (ast.Constant, ast.Name)):
        return True
    if isinstance(e, ast.Attribute):
        return _pure_lit(e.value)
    # string building from pure pieces: f"rId{n}", "rId%d" % n, a + b
    if isinstance(e, ast.JoinedStr):
        return all(isinstance(v, ast.Constant) or (isinstance(v, ast.FormattedValue) and _pure_lit(v.value) and (
            v.format_spec is None or _pure_lit(v.format_spec))) for v in e.values)
    if isinstance(e, ast.BinOp) and isinstance(e.op, (ast.Mod, ast.Add, ast.Sub, ast.Mult)):
        return _pure_lit(e.left) and _pure_lit(e.right)
    return False


def _own_jump(nodes):
    for x in nodes:
        if isinstance(x, (ast.Continue, ast.Break)):
            return True
        if isinstance(x, (ast.For, ast.While, ast.FunctionDef, ast.AsyncFunctionDef, ast.ClassDef)):
            continue
        if _own_jump(list(ast.iter_child_nodes(x))):
            return True
    return False


def _counting_whiles(stmts):
    """`n = A` ; `while n > B: BODY ; n -= 1`   ->   `for n in range(A, B, -1): BODY`   (and the upward / inclusive variants), when
    BODY does not otherwise assign n, has no `continue` of this loop, the loop has no else, and n is not read after the loop."""
    out = []
    i = 0
    while i < len(stmts):
        st = stmts[i]
        new = None
        if isinstance(st, ast.While) and not st.orelse and out and isinstance(out[-1], ast.Assign) and len(out[-1].targets) == 1 \
                and isinstance(out[-1].targets[0], ast.Name) and isinstance(st.test, ast.Compare) and len(st.test.ops) == 1 \
                and isinstance(st.test.left, ast.Name) and st.test.left.id == out[-1].targets[0].id and st.body:
            n = st.test.left.id
            last = st.body[-1]
            op = st.test.ops[0]
            bound = st.test.comparators[0]
            step = None
            if isinstance(last, ast.AugAssign) and isinstance(last.target, ast.Name) and last.target.id == n \
                    and isinstance(last.value, ast.Constant) and last.value.value == 1:
                if isinstance(last.op, ast.Sub) and isinstance(op, (ast.Gt, ast.GtE)):
                    step = -1
                elif isinstance(last.op, ast.Add) and isinstance(op, (ast.Lt, ast.LtE)):
                    step = 1
            body = st.body[:-1]

            def own_continue(nodes):
                for x in nodes:
                    if isinstance(x, ast.Continue):
                        return True
                    if isinstance(x, (ast.For, ast.While, ast.FunctionDef, ast.AsyncFunctionDef, ast.ClassDef)):
                        continue
                    if own_continue(list(ast.iter_child_nodes(x))):
                        return True
                return False

            assigns_n = any(isinstance(x, ast.Name) and x.id == n and isinstance(x.ctx, (ast.Store, ast.Del)) for b in body for x in ast.walk(b))
            reads_after = any(isinstance(x, ast.Name) and x.id == n for later in stmts[i + 1:] for x in ast.walk(later))
            bound_uses_n = any(isinstance(x, ast.Name) and x.id == n for x in ast.walk(bound))
            if step is not None and body and not own_continue(body) and not assigns_n and not reads_after and not bound_uses_n:
                stop = bound
                if isinstance(op, ast.GtE):
                    stop = ast.BinOp(left=bound, op=ast.Sub(), right=ast.Constant(value=1))
                elif isinstance(op, ast.LtE):
                    stop = ast.BinOp(left=bound, op=ast.Add(), right=ast.Constant(value=1))
                args = [out[-1].value, stop] + ([ast.UnaryOp(op=ast.USub(), operand=ast.Constant(value=1))] if step == -1 else [])
                new = _loc(ast.For(target=ast.Name(id=n, ctx=ast.Store()), iter=ast.Call(func=ast.Name(id="range", ctx=ast.Load()), args=args, keywords=[]),
                                   body=body, orelse=[], type_comment=None), st)
        if new is not None:
            out[-1] = new
        else:
            out.append(st)
        i += 1
    return out


class _Functional(ast.NodeTransformer):
    """map / filter / itertools.filterfalse with operator.attrgetter, a lambda or a plain function  ->  generator expressions"""
    n = 0

    def _apply(self, fn, arg):
        if isinstance(fn, ast.Call) and (ast.unparse(fn.func) in ("attrgetter", "operator.attrgetter")) and len(fn.args) == 1 \
                and isinstance(fn.args[0], ast.Constant) and isinstance(fn.args[0].value, str) and fn.args[0].value.isidentifier():
            return ast.Attribute(value=arg, attr=fn.args[0].value, ctx=ast.Load())
        # attrgetter("a", "b", ...)(x)  ->  (x.a, x.b, ...)
        if isinstance(fn, ast.Call) and (ast.unparse(fn.func) in ("attrgetter", "operator.attrgetter")) and len(fn.args) > 1 \
                and all(isinstance(a, ast.Constant) and isinstance(a.value, str) and a.value.isidentifier() for a in fn.args) \
                and isinstance(arg, (ast.Name, ast.Attribute)):
            return ast.Tuple(elts=[ast.Attribute(value=copy.deepcopy(arg), attr=a.value, ctx=ast.Load()) for a in fn.args], ctx=ast.Load())
        # X.__getitem__(k)  ->  X[k]
        if isinstance(fn, ast.Attribute) and fn.attr == "__getitem__":
            return ast.Subscript(value=fn.value, slice=arg, ctx=ast.Load())
        # attrgetter("a" if c else "b")(x)  ->  x.a if c else x.b
        if isinstance(fn, ast.Call) and (ast.unparse(fn.func) in ("attrgetter", "operator.attrgetter")) and len(fn.args) == 1 \
                and isinstance(fn.args[0], ast.IfExp) and all(isinstance(x, ast.Constant) and isinstance(x.value, str) and x.value.isidentifier()
                                                               for x in (fn.args[0].body, fn.args[0].orelse)) \
                and isinstance(arg, (ast.Name, ast.Attribute)):
            ie = fn.args[0]
            return ast.IfExp(test=ie.test, body=ast.Attribute(value=copy.deepcopy(arg), attr=ie.body.value, ctx=ast.Load()),
                             orelse=ast.Attribute(value=copy.deepcopy(arg), attr=ie.orelse.value, ctx=ast.Load()))
        # partial(F, a, k=v)(x)  ->  F(a, x, k=v)
        if isinstance(fn, ast.Call) and ast.unparse(fn.func) in ("partial", "functools.partial") and fn.args \
                and not any(isinstance(a, ast.Starred) for a in fn.args) and all(k.arg for k in fn.keywords):
            return ast.Call(func=fn.args[0], args=list(fn.args[1:]) + [arg], keywords=list(fn.keywords))
        # a bound membership test as predicate: X.__contains__(v)  ->  v in X
        if isinstance(fn, ast.Attribute) and fn.attr == "__contains__":
            return ast.Compare(left=arg, ops=[ast.In()], comparators=[fn.value])
        if isinstance(fn, ast.Lambda) and len(fn.args.args) == 1 and not fn.args.defaults:
            p = fn.args.args[0].arg

            class S(ast.NodeTransformer):
                def visit_Name(self_, x):
                    return copy.deepcopy(arg) if x.id == p else x
            return S().visit(copy.deepcopy(fn.body))
        if isinstance(fn, (ast.Name, ast.Attribute)):
            return ast.Call(func=fn, args=[arg], keywords=[])
        return None

    def visit_Call(self, node):
        self.generic_visit(node)
        # operator.methodcaller(NAME, *a)(obj)  ->  getattr(obj, NAME)(*a)
        if isinstance(node.func, ast.Call) and ast.unparse(node.func.func) in ("methodcaller", "operator.methodcaller") and node.func.args \
                and len(node.args) == 1 and not node.keywords:
            mc = node.func
            return ast.copy_location(ast.Call(func=ast.Call(func=ast.Name(id="getattr", ctx=ast.Load()), args=[node.args[0], mc.args[0]], keywords=[]),
                                              args=list(mc.args[1:]), keywords=list(mc.keywords)), node)
        # operator.attrgetter("a")(x)  ->  x.a   (also with a conditional name)
        if isinstance(node.func, ast.Call) and ast.unparse(node.func.func) in ("attrgetter", "operator.attrgetter") and len(node.func.args) == 1 \
                and len(node.args) == 1 and not node.keywords:
            r_ = self._apply(node.func, node.args[0])
            if r_ is not None and not isinstance(r_, ast.Call):
                return ast.copy_location(r_, node)
        d = ast.unparse(node.func)
        # zip(itertools.count(k), XS)  ->  enumerate(XS, start=k)   (the same pairs)
        if d == "zip" and len(node.args) == 2 and not node.keywords and isinstance(node.args[0], ast.Call) \
                and ast.unparse(node.args[0].func) in ("itertools.count", "count") and len(node.args[0].args) <= 1 and not node.args[0].keywords:
            start = node.args[0].args[0] if node.args[0].args else ast.Constant(value=0)
            return ast.copy_location(ast.Call(func=ast.Name(id="enumerate", ctx=ast.Load()), args=[node.args[1]],
                                              keywords=[ast.keyword(arg="start", value=start)]), node)
        if d in ("map", "filter", "itertools.filterfalse", "filterfalse") and len(node.args) == 2 and not node.keywords:
            _Functional.n += 1
            v = "_fx%d" % _Functional.n
            var = ast.Name(id=v, ctx=ast.Load())
            if isinstance(node.args[0], ast.Constant) and node.args[0].value is None and d != "map":
                body = var
            else:
                body = self._apply(node.args[0], var)
            if body is None:
                return node
            if d == "map":
                elt, ifs = body, []
            else:
                elt = ast.Name(id=v, ctx=ast.Load())
                ifs = [body if d == "filter" else ast.UnaryOp(op=ast.Not(), operand=body)]
            return ast.copy_location(ast.GeneratorExp(elt=elt, generators=[ast.comprehension(
                target=ast.Name(id=v, ctx=ast.Store()), iter=node.args[1], ifs=ifs, is_async=0)]), node)
        return node


class _FuseGen(ast.NodeTransformer):
    """(E(v) for v in (F(w) for w in IT if C))  ->  (E(F(w)) for w in IT if C)   (also for tuple targets bound to a tuple element)"""

    def _fuse(self, node):
        if len(node.generators) != 1:
            return node
        g = node.generators[0]
        inner = g.iter
        if not (isinstance(inner, (ast.GeneratorExp, ast.ListComp)) and len(inner.generators) == 1 and not g.is_async):
            return node
        m = None
        if isinstance(g.target, ast.Name):
            m = {g.target.id: inner.elt}
        elif isinstance(g.target, ast.Tuple) and isinstance(inner.elt, ast.Tuple) and len(g.target.elts) == len(inner.elt.elts) \
                and all(isinstance(e, ast.Name) for e in g.target.elts):
            m = {t.id: e for t, e in zip(g.target.elts, inner.elt.elts)}
        if m is None:
            return node
        inner_names = {x.id for x in ast.walk(inner.generators[0].target) if isinstance(x, ast.Name)}
        outer_used = {x.id for x in ast.walk(node.elt) if isinstance(x, ast.Name)} | {x.id for c in g.ifs for x in ast.walk(c) if isinstance(x, ast.Name)}
        if inner_names & (outer_used - set(m)):
            return node   # the inner loop variable would capture a name of the outer element
        # an element expression with calls in it is written once only (no duplicated evaluation)
        for nm, ex in m.items():
            uses = sum(1 for x in ast.walk(node.elt) if isinstance(x, ast.Name) and x.id == nm) + sum(
                1 for c in g.ifs for x in ast.walk(c) if isinstance(x, ast.Name) and x.id == nm)
            if uses > 1 and not _pure_lit(ex):
                return node

        class S(ast.NodeTransformer):
            def visit_Name(self_, x):
                return copy.deepcopy(m[x.id]) if x.id in m and isinstance(x.ctx, ast.Load) else x
        new_elt = S().visit(copy.deepcopy(node.elt))
        new_ifs = list(inner.generators[0].ifs) + [S().visit(copy.deepcopy(c)) for c in g.ifs]
        comp = ast.comprehension(target=inner.generators[0].target, iter=inner.generators[0].iter, ifs=new_ifs, is_async=0)
        if isinstance(node, ast.DictComp):
            return node
        fused = type(node)(elt=new_elt, generators=[comp])
        return self._fuse(ast.copy_location(fused, node))

    def visit_GeneratorExp(self, node):
        self.generic_visit(node)
        return self._fuse(node)

    visit_ListComp = visit_SetComp = visit_GeneratorExp


class _NotIn(ast.NodeTransformer):
    """not (a in b) -> a not in b;  not (a not in b) -> a in b;  likewise `is` / `is not`"""

    def visit_UnaryOp(self, n):
        self.generic_visit(n)
        if isinstance(n.op, ast.Not) and isinstance(n.operand, ast.Compare) and len(n.operand.ops) == 1:
            flip = {ast.In: ast.NotIn, ast.NotIn: ast.In, ast.Is: ast.IsNot, ast.IsNot: ast.Is}.get(type(n.operand.ops[0]))
            if flip is not None:
                return ast.copy_location(ast.Compare(left=n.operand.left, ops=[flip()], comparators=n.operand.comparators), n)
        return n


def _max_loads(stmts, name):
    """largest number of reads of `name` on one path through the block (a read inside a loop body or a nested definition counts
    twice: it may happen again)"""
    def loads(n):
        return sum(1 for x in ast.walk(n) if isinstance(x, ast.Name) and x.id == name and isinstance(x.ctx, ast.Load)) if n is not None else 0

    total = 0
    for st in stmts:
        if isinstance(st, ast.If):
            total += loads(st.test) + max(_max_loads(st.body, name), _max_loads(st.orelse, name))
        elif isinstance(st, (ast.For, ast.AsyncFor)):
            total += loads(st.iter) + 2 * _max_loads(st.body, name) + _max_loads(st.orelse, name)
        elif isinstance(st, ast.While):
            total += 2 * (loads(st.test) + _max_loads(st.body, name)) + _max_loads(st.orelse, name)
        elif isinstance(st, ast.Try):
            total += _max_loads(st.body, name) + max([_max_loads(h.body, name) for h in st.handlers] or [0]) \
                + _max_loads(st.orelse, name) + _max_loads(st.finalbody, name)
        elif isinstance(st, (ast.With, ast.AsyncWith)):
            total += sum(loads(i.context_expr) for i in st.items) + _max_loads(st.body, name)
        elif isinstance(st, (ast.FunctionDef, ast.AsyncFunctionDef, ast.ClassDef)):
            total += 2 * loads(st)
        else:
            total += loads(st)
    return total


def desugar(fnode):
    from .sink import sink

    f = copy.deepcopy(fnode)
    f = _Functional().visit(f)
    f = _FuseGen().visit(f)
    f = sink(f)   # a value picked by a branch and used once by the next statement is written at that use
    ast.fix_missing_locations(f)
    d = _D()
    d.lits = literal_bindings(f)
    # generator expressions bound once to a local that is read at most once on any path (as the iterable of a loop / a search)
    cnt = {}
    for n in ast.walk(f):
        if isinstance(n, ast.Name):
            s_, l_ = cnt.get(n.id, (0, 0))
            cnt[n.id] = (s_ + 1, l_) if isinstance(n.ctx, (ast.Store, ast.Del)) else (s_, l_ + 1)
    d.gens = {n.targets[0].id: n.value for n in ast.walk(f) if isinstance(n, ast.Assign) and len(n.targets) == 1 and isinstance(n.targets[0], ast.Name)
              and (isinstance(n.value, ast.GeneratorExp) or (isinstance(n.value, ast.Call) and ast.unparse(n.value.func) in (
                  "itertools.count", "count", "range") and _pure_lit(ast.Tuple(elts=list(n.value.args), ctx=ast.Load()))))
              and cnt.get(n.targets[0].id, (0, 0))[0] == 1
              and (cnt.get(n.targets[0].id) == (1, 1) or (cnt[n.targets[0].id][1] > 1 and _max_loads(f.body, n.targets[0].id) == 1))}
    f = d.visit(f)
    f = _NotIn().visit(f)
    # values picked by a branch (now written as if-statements) and used once by the next statement: written at that use, then the
    # result is brought to canonical form once more
    before = ast.dump(f)
    f = sink(f)
    if ast.dump(f) != before:
        ast.fix_missing_locations(f)
        f = d.visit(f)
    return f


def literal_bindings(root):
    """name -> literal tuple / list / dict of pure elements it is bound to exactly once under `root` (deletes aside)"""
    cnt, val = {}, {}
    for n in ast.walk(root):
        if isinstance(n, ast.Name) and isinstance(n.ctx, ast.Store):
            cnt[n.id] = cnt.get(n.id, 0) + 1
        if isinstance(n, ast.Assign) and len(n.targets) == 1 and isinstance(n.targets[0], ast.Name) and isinstance(n.value, (ast.Tuple, ast.List, ast.Dict)):
            val[n.targets[0].id] = n.value
        if isinstance(n, ast.AnnAssign) and isinstance(n.target, ast.Name) and isinstance(n.value, (ast.Tuple, ast.List, ast.Dict)):
            val[n.target.id] = n.value
    return {k: v for k, v in val.items() if cnt.get(k) == 1 and _pure_lit(v)}


def unroll_block(stmts, root):
    """the statement list with literal-driven loops unrolled (used for module-level registration loops)"""
    d = _D()
    d.lits = literal_bindings(root)
    return d._block([copy.deepcopy(s) for s in stmts])


def lift_generators(fnode):
    """`name = (E for v in IT if C)` (a generator held in a local, bound once)  ->  a nested generator function of that name's
    making and `name__gen()` at its uses: the pipeline spelling and the `def iter_x(): for ...: if ...: yield ...` spelling of a
    filter then read the same to loop-based rules.  Works on (and returns) the given tree."""
    cnt = {}
    for n in ast.walk(fnode):
        if isinstance(n, ast.Name) and isinstance(n.ctx, ast.Store):
            cnt[n.id] = cnt.get(n.id, 0) + 1
    lifted = {}

    class L(ast.NodeTransformer):
        def visit_Assign(self, n):
            if len(n.targets) == 1 and isinstance(n.targets[0], ast.Name) and cnt.get(n.targets[0].id) == 1 and isinstance(n.value, ast.GeneratorExp):
                g = n.value
                body = [ast.Expr(value=ast.Yield(value=g.elt))]
                for comp in reversed(g.generators):
                    for c in reversed(comp.ifs):
                        body = [ast.If(test=c, body=body, orelse=[])]
                    body = [ast.For(target=comp.target, iter=comp.iter, body=body, orelse=[], type_comment=None)]
                name = n.targets[0].id + "__gen"
                lifted[n.targets[0].id] = name
                fd = ast.FunctionDef(name=name, args=ast.arguments(posonlyargs=[], args=[], vararg=None, kwonlyargs=[], kw_defaults=[], kwarg=None, defaults=[]),
                                     body=body, decorator_list=[], returns=None, type_comment=None, type_params=[])
                return _loc(fd, n)
            return n

    L().visit(fnode)
    if lifted:
        class U(ast.NodeTransformer):
            def visit_Name(self, n):
                if isinstance(n.ctx, ast.Load) and n.id in lifted:
                    return _loc(ast.Call(func=ast.Name(id=lifted[n.id], ctx=ast.Load()), args=[], keywords=[]), n)
                return n
        U().visit(fnode)
        ast.fix_missing_locations(fnode)
    return fnode


def simplify_functional(e):
    """expression with map/filter/attrgetter idioms rewritten (see _Functional)"""
    return _Functional().visit(copy.deepcopy(e))   # (the caller's tree is left as it is)
