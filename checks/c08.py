"""C08 — the chart's cached values and its embedded workbook agree cell for cell (decidable clauses).

Rules
  R8.1  same source: every c:f / cached-point pair of the XML writers (numRef_xml(ref, fmt, values), values_ref with the
        value points, name_ref with the series name) names a reference builder R and a data attribute A; the workbook
        writer's write whose cell range equals R's range writes the same attribute A of the series
  R8.2  same cells: each reference builder is decoded from its format string into (column, first row, last row) as
        polynomials over {depth, index, len, leaf_count, data_point_offset}; each worksheet.write / write_column is decoded
        into the cells it fills; reference and cells must be equal as normal forms (column A=0; 1-based rows = 0-based + 1;
        a column of n values ends at first row + n - 1); the category block covers columns 0..depth-1 and rows 1..leaf_count
  R8.3  delegation: series.<x>_ref -> chart_data.<x>_ref(series) -> workbook_writer.<x>_ref(series) keep the name; each chart
        data class builds the workbook writer of its own kind; replace_data writes the workbook and the XML from the same
        chart data object
  R8.6  the date system of the cached serials is the date system of the embedded workbook (new charts: 1900 on both sides;
        replace_data: known finding, the workbook is always 1900 while the cache follows c:date1904)
  R8.7  a date label is reduced the same way for the cache and for the cell (known finding: the cache drops the time of day)
  R8.5  per chart type, the chart writer and the series rewriter use the same series-writer class
  R8.4  date serials: epochs and the 1900 leap-year compatibility rule equal the standard's definition (constants folded,
        dates computed on constants)
  (column letters beyond Z (_column_reference), cell values as stored by XlsxWriter: not decided)
"""

from __future__ import annotations

import ast
import re

from sa.poly import Poly, of_expr
from sa.pysrc import dotted
from sa.report import AnalysisError
from sa.types import walk_own

MARK = "\x00"


class NotDecoded(Exception):
    pass


def canon(e):
    """Canonical symbol for a data-dependent sub-expression, or None."""
    s = ast.unparse(e)
    if isinstance(e, ast.Call) and dotted(e.func) == "len" and len(e.args) == 1:
        a = ast.unparse(e.args[0])
        if a in ("series",):
            return "len"
        if a.startswith("series."):
            return "len"  # len(series.<values attr>) == len(series): one point per data point (premise, see R8.1)
    if not isinstance(e, (ast.Attribute, ast.Name)):
        return None
    if s.endswith(".depth") or s == "depth":
        return "depth"
    if s.endswith(".leaf_count"):
        return "leaf"
    if s in ("series.index",):
        return "index"
    if s == "series.data_point_offset":
        return "dpo"
    return None


class Decoder:
    def __init__(self, prog, cls):
        self.prog = prog
        self.cls = cls

    def P(self, e, env):
        c = canon(e)
        if c:
            return Poly.sym(c)
        if isinstance(e, ast.Name):
            if e.id in env:
                v = env[e.id]
                if isinstance(v, Poly):
                    return v
                raise NotDecoded("name %s is not numeric" % e.id)
            return Poly.sym(e.id)
        if isinstance(e, ast.Constant) and isinstance(e.value, int) and not isinstance(e.value, bool):
            return Poly.const(e.value)
        if isinstance(e, ast.BinOp) and isinstance(e.op, (ast.Add, ast.Sub, ast.Mult)):
            l, r = self.P(e.left, env), self.P(e.right, env)
            return l + r if isinstance(e.op, ast.Add) else l - r if isinstance(e.op, ast.Sub) else l * r
        if isinstance(e, ast.UnaryOp) and isinstance(e.op, (ast.USub, ast.UAdd)):
            v = self.P(e.operand, env)
            return -v if isinstance(e.op, ast.USub) else v
        if isinstance(e, ast.Call) and isinstance(e.func, ast.Attribute) and dotted(e.func.value) == "self":
            f = self.prog.lookup(self.cls, e.func.attr)
            if f is not None:
                v = self.inline(f, e)
                if isinstance(v, Poly):
                    return v
        raise NotDecoded("expression `%s`" % ast.unparse(e))

    def locals_of(self, f, env0):
        env = dict(env0)
        for st in (f.node.body if hasattr(f, "node") else f.body):
            if isinstance(st, ast.Assign) and len(st.targets) == 1 and isinstance(st.targets[0], ast.Name):
                try:
                    env[st.targets[0].id] = self.value(st.value, env)
                except NotDecoded:
                    env[st.targets[0].id] = ("opaque", ast.unparse(st.value))
        return env

    def value(self, e, env):
        """Poly, or ("col0", Poly) for a column designator, or ("str", template)."""
        if isinstance(e, ast.Name) and isinstance(env.get(e.id), tuple):
            return env[e.id]
        # chr(ord("A") + E) -> 0-based column E
        if isinstance(e, ast.Call) and dotted(e.func) == "chr" and len(e.args) == 1:
            a = e.args[0]
            if isinstance(a, ast.BinOp):
                # collect: ord("A") + rest
                class R(ast.NodeTransformer):
                    def visit_Call(self_, n):
                        if dotted(n.func) == "ord" and n.args and isinstance(n.args[0], ast.Constant) and n.args[0].value == "A":
                            return ast.Name(id="@ordA", ctx=ast.Load())
                        return self_.generic_visit(n)
                import copy

                p = self.P(R().visit(copy.deepcopy(a)), env)
                if p.t.get(("@ordA",)) == 1:
                    return ("col0", p - Poly.sym("@ordA"))
            raise NotDecoded("chr(...) form")
        if isinstance(e, ast.Call) and dotted(e.func) in ("self._column_reference",):
            return ("col0", self.P(e.args[0], env) - Poly.const(1))
        if isinstance(e, ast.Call) and isinstance(e.func, ast.Attribute) and dotted(e.func.value) == "self":
            f = self.prog.lookup(self.cls, e.func.attr)
            if f is not None:
                return self.inline(f, e)
        return self.P(e, env)

    def inline(self, f, call):
        """Value returned by a straight-line helper method."""
        env = self.locals_of(f, {})
        rets = [n.value for n in f.node.body if isinstance(n, ast.Return)]
        if len(rets) != 1:
            raise NotDecoded("%s is not straight-line" % f.name)
        r = rets[0]
        if isinstance(r, ast.Call) and dotted(r.func) == "self._column_reference":
            return ("col0", self.P(r.args[0], env) - Poly.const(1))
        return self.value(r, env)

    def ref(self, f):
        """[(col0_lo, col0_hi, row_lo, row_hi)] (rows 1-based) for a reference builder."""
        from sa.inline import expand
        from sa.strtpl import Hole, template_of

        # canonical form: helpers that build the reference for several columns are inlined (their column argument becomes a literal)
        fx = expand(self.prog, f, skip_names=("_column_reference",))
        env = self.locals_of(fx, {})
        rets = [n.value for n in walk_own(fx) if isinstance(n, ast.Return)]
        if len(rets) != 1:
            raise NotDecoded("several returns")
        single = {}
        for n in walk_own(fx):
            if isinstance(n, ast.Assign) and len(n.targets) == 1 and isinstance(n.targets[0], ast.Name):
                single.setdefault(n.targets[0].id, []).append(n.value)
        parts = template_of(rets[0], lambda nm: single[nm.id][0] if len(single.get(nm.id, [])) == 1 and isinstance(
            single[nm.id][0], (ast.Constant, ast.JoinedStr, ast.BinOp)) and not isinstance(env.get(nm.id), (Poly, tuple)) else None,
            lambda e: self.prog.const(e, f.module, None, self.cls) if isinstance(e, (ast.Name, ast.Attribute)) and not (
                isinstance(e, ast.Name) and e.id in env) else None)
        if parts is None:
            raise NotDecoded("return is not a formatted string")
        tmpl, args = "", []
        for p_ in parts:
            if isinstance(p_, Hole):
                if isinstance(p_.expr, ast.Constant) and isinstance(p_.expr.value, (str, int)):
                    tmpl += str(p_.expr.value)
                else:
                    tmpl += "%s%d%s" % (MARK, len(args), MARK)
                    args.append(p_.expr)
            else:
                tmpl += p_
        m = re.fullmatch(r"Sheet1!\$([^$:]+)\$([^$:]+)(?::\$([^$:]+)\$([^$:]+))?", tmpl)
        if not m:
            raise NotDecoded("template %r is not Sheet1!$C$R[:$C$R]" % tmpl)

        def comp(tok, kind):
            mm = re.fullmatch(MARK + r"(\d+)" + MARK, tok)
            if mm:
                v = self.value(args[int(mm.group(1))], env)
                if kind == "col":
                    if isinstance(v, tuple) and v[0] == "col0":
                        return v[1]
                    raise NotDecoded("column argument `%s` is not a column designator" % ast.unparse(args[int(mm.group(1))]))
                if isinstance(v, Poly):
                    return v
                raise NotDecoded("row argument")
            if kind == "col":
                if re.fullmatch(r"[A-Z]", tok):
                    return Poly.const(ord(tok) - ord("A"))
                raise NotDecoded("column literal %r" % tok)
            if tok.isdigit():
                return Poly.const(int(tok))
            raise NotDecoded("row literal %r" % tok)

        c1, r1 = comp(m.group(1), "col"), comp(m.group(2), "row")
        if m.group(3) is None:
            return (c1, c1, r1, r1)
        c2, r2 = comp(m.group(3), "col"), comp(m.group(4), "row")
        return (c1, c2, r1, r2)

    # -- writes ------------------------------------------------------------------------------------------
    def writes(self, f, env0=None, ctxloops=()):
        """[(kind, row0 Poly, col0 Poly, data source text, loops)] for worksheet.write / write_column in f and helpers."""
        out = []
        env = dict(env0 or {})

        def helper_of(call, cur):
            """the writer's own method a call dispatches to: self._m(...) or super(...)._m(...) (next in the MRO after `cur`)"""
            fn = call.func
            if not isinstance(fn, ast.Attribute):
                return None
            if dotted(fn.value) == "self" and fn.attr.startswith("_"):
                return self.prog.lookup(self.cls, fn.attr)
            if isinstance(fn.value, ast.Call) and dotted(fn.value.func) == "super" and cur is not None and cur.cls is not None:
                return self.prog.lookup(self.cls, fn.attr, after=cur.cls)
            return None

        def call_helper(g, c, env, loops):
            """run the helper's writes with its parameters bound; returns the value it returns (or None)"""
            params = [a.arg for a in g.node.args.args][1:]
            e3 = {}
            for p, a in zip(params, c.args):
                if isinstance(a, ast.Name) and a.id in env:
                    e3[p] = env[a.id]
                else:
                    try:
                        e3[p] = self.P(a, env)
                    except NotDecoded:
                        e3[p] = ("opaque", ast.unparse(a))
            gb = [s for s in g.node.body if not (isinstance(s, ast.Expr) and isinstance(s.value, ast.Constant))]
            return block(gb, e3, loops, g)

        def block(stmts, env, loops, cur=None):
            cur = cur if cur is not None else f
            for st in stmts:
                if isinstance(st, ast.Return):
                    if st.value is None:
                        return None
                    try:
                        return self.value(st.value, env)
                    except NotDecoded:
                        return ("opaque", ast.unparse(st.value))
                if isinstance(st, ast.Assign) and len(st.targets) == 1 and isinstance(st.targets[0], ast.Name) \
                        and isinstance(st.value, ast.Call) and helper_of(st.value, cur) is not None \
                        and any(isinstance(x, ast.Call) and (dotted(x.func) or "").startswith("worksheet.") for x in ast.walk(helper_of(st.value, cur).node)):
                    # a helper that writes and hands a value back (`offset = super()._write_series_table(...)`)
                    rv_ = call_helper(helper_of(st.value, cur), st.value, env, loops)
                    env[st.targets[0].id] = rv_ if rv_ is not None else ("opaque", ast.unparse(st.value))
                    continue
                if isinstance(st, ast.Assign) and len(st.targets) == 1 and isinstance(st.targets[0], ast.Name):
                    try:
                        env[st.targets[0].id] = self.value(st.value, env)
                    except NotDecoded:
                        env[st.targets[0].id] = ("opaque", ast.unparse(st.value))
                elif isinstance(st, ast.For):
                    e2 = dict(env)
                    lp = None
                    it = st.iter
                    itsym = None
                    # `for v, x in zip(itertools.count(start, step), XS)`: v is the induction variable start + step * i
                    zip_count = None
                    if isinstance(it, ast.Call) and dotted(it.func) == "zip" and len(it.args) == 2 and isinstance(st.target, ast.Tuple) \
                            and len(st.target.elts) == 2 and all(isinstance(e_, ast.Name) for e_ in st.target.elts):
                        ca = it.args[0]
                        if isinstance(ca, ast.Name) and isinstance(env.get(ca.id), tuple) and env[ca.id][0] == "opaque":
                            try:
                                ca = ast.parse(env[ca.id][1], mode="eval").body
                            except SyntaxError:
                                pass
                        if isinstance(ca, ast.Call) and dotted(ca.func) in ("itertools.count", "count") and len(ca.args) <= 2 and not ca.keywords:
                            zip_count = (ca.args[0] if ca.args else ast.Constant(value=0), ca.args[1] if len(ca.args) > 1 else ast.Constant(value=1))
                    if zip_count is not None:
                        iv = st.target.elts[0].id
                        src = ast.unparse(it.args[1])
                        s0, k0 = self.P(zip_count[0], env), self.P(zip_count[1], env)
                        if not k0.is_const():
                            raise NotDecoded("counter step")
                        if src == "self._chart_data":
                            e2[iv] = s0 + k0 * Poly.sym("index")
                            lp = ("series",)
                            itsym = "index"
                        elif src.endswith(".levels"):
                            e2[iv] = s0 + k0 * Poly.sym("lvl")
                            lp = ("levels", st.target.elts[1].id)
                            itsym = "lvl"
                        else:
                            raise NotDecoded("loop over %s" % src)
                    elif isinstance(it, ast.Call) and dotted(it.func) == "enumerate" and isinstance(st.target, ast.Tuple):
                        iv = st.target.elts[0].id
                        src = ast.unparse(it.args[0])
                        start = it.args[1] if len(it.args) > 1 else next((k.value for k in it.keywords if k.arg == "start"), None)
                        s0 = self.P(start, env) if start is not None else Poly.const(0)
                        if src == "self._chart_data":
                            e2[iv] = Poly.sym("index") + s0
                            lp = ("series",)
                            itsym = "index"
                        elif src.endswith(".levels"):
                            e2[iv] = Poly.sym("lvl") + s0
                            lp = ("levels", st.target.elts[1].id)
                            itsym = "lvl"
                        else:
                            raise NotDecoded("loop over %s" % src)
                    elif isinstance(st.target, ast.Tuple) and isinstance(it, ast.Name) and isinstance(env.get(it.id), tuple) and env[it.id][0] == "level":
                        e2[st.target.elts[0].id] = Poly.sym("off")
                        e2[st.target.elts[1].id] = ("data", "category label")
                        lp = ("level-items",)
                    elif ast.unparse(it) == "self._chart_data" and isinstance(st.target, ast.Name):
                        lp = ("series",)
                        itsym = "index"
                    elif ast.unparse(it).endswith(".levels") and isinstance(st.target, ast.Name):
                        lp = ("levels", st.target.id)
                        itsym = "lvl"
                    else:
                        raise NotDecoded("loop `for %s in %s`" % (ast.unparse(st.target), ast.unparse(it)))
                    # induction variables: `v = A` before the loop and `v += c` as the first / last statement of the body
                    body_ = list(st.body)
                    for pos in (0, -1):
                        if body_ and isinstance(body_[pos], ast.AugAssign) and isinstance(body_[pos].target, ast.Name) \
                                and isinstance(env.get(body_[pos].target.id), Poly) and isinstance(body_[pos].op, (ast.Add, ast.Sub)) and itsym:
                            stp = self.P(body_[pos].value, env)
                            if not stp.is_const():
                                raise NotDecoded("induction step")
                            stp = stp if isinstance(body_[pos].op, ast.Add) else -stp
                            v_ = body_[pos].target.id
                            e2[v_] = env[v_] + stp * Poly.sym(itsym) + (stp if pos == 0 and len(body_) > 1 else Poly())
                            body_ = body_[1:] if pos == 0 else body_[:-1]
                            break
                    if any(isinstance(x, ast.AugAssign) for b_ in body_ for x in ast.walk(b_)):
                        raise NotDecoded("augmented assignment inside a loop body")
                    if lp[0] == "levels":
                        e2[lp[1]] = ("level", None)
                    if lp[0] == "series":
                        # the rules name the data by role (`series.values`): write the loop variable as `series`
                        sv_ = st.target.elts[1] if isinstance(st.target, ast.Tuple) and len(st.target.elts) == 2 else st.target
                        if isinstance(sv_, ast.Name) and sv_.id != "series":
                            import copy as _copy

                            class _Ren(ast.NodeTransformer):
                                def visit_Name(self_, n_):
                                    return ast.copy_location(ast.Name(id="series", ctx=n_.ctx), n_) if n_.id == sv_.id else n_
                            body_ = [_Ren().visit(_copy.deepcopy(b_)) for b_ in body_]
                    block(body_, e2, loops + (lp[0],), cur)
                elif isinstance(st, ast.Expr) and isinstance(st.value, ast.Call):
                    c = st.value
                    d = dotted(c.func) or ""
                    if d in ("worksheet.write", "worksheet.write_column"):
                        r0, c0 = self.P(c.args[0], env), self.P(c.args[1], env)
                        data = c.args[2]
                        dv = env.get(data.id) if isinstance(data, ast.Name) else None
                        dsrc = dv[1] if isinstance(dv, tuple) and dv[0] == "data" else ast.unparse(data)
                        out.append(("column" if d.endswith("write_column") else "cell", r0, c0, dsrc, loops))
                    elif helper_of(c, cur) is not None:
                        call_helper(helper_of(c, cur), c, env, loops)
                    elif d.startswith("self._") and isinstance(c.func, ast.Attribute):
                        raise NotDecoded("helper %s" % d)
                    elif d in ("worksheet.set_column",):
                        continue
                    elif d.startswith("workbook."):
                        continue
                    else:
                        raise NotDecoded("call %s" % d)
                elif isinstance(st, ast.Expr) and isinstance(st.value, ast.Constant):
                    continue
                else:
                    raise NotDecoded("statement `%s`" % ast.unparse(st)[:50])

        body = [s for s in f.node.body if not (isinstance(s, ast.Expr) and isinstance(s.value, ast.Constant))]
        block(body, env, tuple(ctxloops))
        return out


def date_system_rule(ctx, prog, rid):
    """Date categories are written as serial numbers of the workbook's date system (ECMA-376 Part 1, 18.17.4.1):
    1904 base: serial 0 = 1904-01-01; 1900 base: serial 1 = 1900-01-01 and, for compatibility, a non-existent 1900-02-29
    with serial 60, so every date from 1900-03-01 on is one more than its true day count.

    Every path through Category._excel_date_number is evaluated abstractly: the date-system flag decided on the path, the
    epoch the label's date is subtracted from (folded wherever it is defined), the constant added to the day count, and the
    threshold decisions taken on the day count (or on the date).  The resulting table must equal the definition above; dates
    are computed with datetime on constants only."""
    import datetime

    from sa import paths as P_
    from sa.desugar import desugar
    from sa.pysrc import Unknown

    dm = prog.modules.get("pptx.chart.data")
    cat = dm.classes.get("Category") if dm else None
    f = cat.methods.get("_excel_date_number") if cat else None
    if f is None:
        raise AnalysisError("anchor vanished: Category._excel_date_number")
    key = "Category._excel_date_number"
    flag = f.node.args.args[1].arg
    from sa.inline import expand as _exp8

    d = _exp8(prog, f, local_only=True)   # the arithmetic may live in a module-level function of the date value and the flag
    body_ = [s_ for s_ in d.body if not (isinstance(s_, ast.Expr) and isinstance(s_.value, ast.Constant))]
    if len(body_) == 1 and isinstance(body_[0], ast.Return) and isinstance(body_[0].value, ast.Call):
        # ... or in a function of another module the method only hands its label and flag to: read in place too
        try:
            d2 = _exp8(prog, f, depth=2, local_only=False)
            if any(isinstance(x, (ast.If, ast.IfExp)) for x in ast.walk(d2)):
                d = d2
        except Exception:  # noqa: BLE001
            pass
    flag_names = {flag}
    for n_ in ast.walk(d):
        # plain copies / bool() of the flag stand for the flag
        if isinstance(n_, ast.Assign) and len(n_.targets) == 1 and isinstance(n_.targets[0], ast.Name):
            v_ = n_.value
            if (isinstance(v_, ast.Name) and v_.id == flag) or (isinstance(v_, ast.Call) and dotted(v_.func) == "bool" and len(v_.args) == 1
                                                                  and isinstance(v_.args[0], ast.Name) and v_.args[0].id == flag):
                flag_names.add(n_.targets[0].id)
    assumed = [None]   # the value of the flag the current evaluation assumes (tables keyed by the flag are read with it)

    class Und(Exception):
        pass

    def fold_date(e, env):
        """datetime.date for a constant date expression (constructor call on constants, or a name folding to one)."""
        if isinstance(e, ast.Name) and isinstance(env.get(e.id), datetime.date):
            return env[e.id]
        if isinstance(e, ast.Call) and len(e.args) == 3:
            fn = dotted(e.func) or ""
            tgt = env.get(fn, fn) if isinstance(env.get(fn), str) else fn
            if tgt.endswith("date"):
                v = [prog.const(a, f.module) for a in e.args]
                if all(isinstance(x, int) for x in v):
                    return datetime.date(*v)
        if isinstance(e, (ast.Name, ast.Attribute)):
            node = f.module.assigns.get(e.id) if isinstance(e, ast.Name) else None
            if node is not None:
                return fold_date(node, {})
        return None

    def ev(e, env):
        """abstract value: ('label',) the label's date | ('date', d) | ('delta', epoch) | ('days', epoch, add) | ('int', k)"""
        dc = fold_date(e, env)
        if dc is not None:
            return ("date", dc)
        if isinstance(e, ast.Name):
            if e.id in env and isinstance(env[e.id], tuple):
                return env[e.id]
            k = prog.const(e, f.module)
            if isinstance(k, int) and not isinstance(k, bool):
                return ("int", k)
            if k is None and e.id == "None":
                return ("none",)
            # a module constant that is a record (NamedTuple / dataclass instance built from constants): its fields by name
            node = f.module.assigns.get(e.id)
            if isinstance(node, ast.Call) and isinstance(node.func, ast.Name) and node.func.id in f.module.classes:
                rc = f.module.classes[node.func.id]
                fields = [n_.target.id for n_ in rc.node.body if isinstance(n_, ast.AnnAssign) and isinstance(n_.target, ast.Name)]
                if fields and len(node.args) + len(node.keywords) == len(fields):
                    vals = dict(zip(fields, node.args))
                    vals.update({k_.arg: k_.value for k_ in node.keywords})
                    return ("record", {fn_: ev(v_, {}) for fn_, v_ in vals.items()})
            raise Und("name %s" % e.id)
        if isinstance(e, ast.Constant) and e.value is None:
            return ("none",)
        if isinstance(e, ast.Attribute) and isinstance(e.value, ast.Name):
            base = None
            try:
                base = ev(e.value, env)
            except Und:
                base = None
            if isinstance(base, tuple) and base[0] == "record" and e.attr in base[1]:
                return base[1][e.attr]
        if isinstance(e, ast.Constant) and isinstance(e.value, int):
            return ("int", e.value)
        # a table keyed by the date-system flag: `EPOCHS[uses_1904]` is the row of the flag value assumed for this evaluation
        if isinstance(e, ast.Subscript) and isinstance(e.slice, ast.Name) and e.slice.id in flag_names and isinstance(e.value, (ast.Name, ast.Attribute)):
            tnode = f.module.assigns.get(e.value.id) if isinstance(e.value, ast.Name) else None
            if tnode is None and isinstance(e.value, ast.Attribute) and cat is not None:
                a_ = prog.lookup_attr(cat, e.value.attr)
                tnode = a_[1] if a_ else None
            if isinstance(tnode, ast.Dict) and assumed[0] is not None:
                for k_, v_ in zip(tnode.keys, tnode.values):
                    if k_ is not None and prog.const(k_, f.module) is assumed[0]:
                        return ev(v_, {})
            raise Und("table `%s` keyed by the date-system flag" % ast.unparse(e))
        # proleptic ordinals: date.toordinal() differences are day counts
        if isinstance(e, ast.Call) and isinstance(e.func, ast.Attribute) and e.func.attr == "toordinal" and not e.args:
            v = ev(e.func.value, env)
            if v[0] == "date":
                return ("ordc", v[1])
            if v == ("label",):
                return ("ordl",)
            raise Und("toordinal() of %s" % ast.unparse(e.func.value))
        if isinstance(e, ast.Call) and len(e.args) == 3 and all(isinstance(a, ast.Attribute) and a.attr in ("year", "month", "day") for a in e.args):
            return ("label",)
        if isinstance(e, ast.BinOp) and isinstance(e.op, ast.Sub):
            l, r = ev(e.left, env), ev(e.right, env)
            if l == ("label",) and r[0] == "date":
                return ("delta", r[1])
            if l == ("ordl",) and r[0] == "ordc":
                return ("days", r[1], 0)
            if l[0] == "days" and r[0] == "int":
                return ("days", l[1], l[2] - r[1])
            raise Und("subtraction %s" % ast.unparse(e))
        if isinstance(e, ast.BinOp) and isinstance(e.op, ast.Add):
            l, r = ev(e.left, env), ev(e.right, env)
            if l[0] == "int":
                l, r = r, l
            if l[0] == "days" and r[0] == "int":
                return ("days", l[1], l[2] + r[1])
            raise Und("addition %s" % ast.unparse(e))
        if isinstance(e, ast.Attribute) and e.attr == "days":
            v = ev(e.value, env)
            if v[0] == "delta":
                return ("days", v[1], 0)
        raise Und("expression `%s`" % ast.unparse(e))

    rows = []  # (flag value, epoch, add, [first day count from which this row applies / below which it applies])
    try:
      for assume_ in (True, False):
        assumed[0] = assume_
        for pth in P_.enum_paths(d.body):
            if pth.end != "return":
                continue
            env = {}
            flagv = assume_
            lo = hi = None  # the path applies to day counts in [lo, hi)
            feasible = True
            for evn in pth.events:
                if not feasible:
                    break   # the path contradicts a value known on it: nothing after the contradiction is evaluated
                if evn[0] == "stmt":
                    st = evn[1]
                    if isinstance(st, ast.Assign) and isinstance(st.targets[0], ast.Name):
                        if isinstance(st.value, ast.Attribute) and dotted(st.value) in ("datetime.date", "date"):
                            env[st.targets[0].id] = dotted(st.value)
                            continue
                        if dotted(st.value) == "self._label" or st.targets[0].id in flag_names:
                            continue
                        env[st.targets[0].id] = ev(st.value, env)
                    elif isinstance(st, ast.AugAssign) and isinstance(st.target, ast.Name) and isinstance(st.op, ast.Add):
                        cur, inc = env.get(st.target.id), ev(st.value, env)
                        if not (isinstance(cur, tuple) and cur[0] == "days" and inc[0] == "int"):
                            raise Und("augmented assignment")
                        env[st.target.id] = ("days", cur[1], cur[2] + inc[1])
                    continue
                if evn[0] != "cond":
                    raise Und("statement kind %s" % evn[0])
                atoms_ = [a_ for a_ in P_.atoms(evn[1], evn[2]) if a_[0] != "or"]  # disjunctions are resolved below
                if not atoms_ and isinstance(evn[1], ast.BoolOp) and isinstance(evn[1].op, ast.And) and evn[2] is False:
                    # `A and B` is false: when every conjunct but one is already known true on this path, that one is false
                    unknown_ = []
                    contradicted = False
                    for cj in evn[1].values:
                        at_ = P_.atoms(cj, True)
                        if len(at_) == 1 and at_[0][0] == "truthy" and at_[0][1] in flag_names and flagv is not None:
                            if at_[0][2] != flagv:
                                contradicted = True  # this conjunct is false already: nothing more is learnt
                        elif len(at_) == 1 and at_[0][0] == "none" and isinstance(env.get(at_[0][1]), tuple):
                            if (env[at_[0][1]] == ("none",)) != at_[0][2]:
                                contradicted = True  # decided by a value known on this path
                        else:
                            unknown_.append(cj)
                    if not contradicted and len(unknown_) == 1:
                        atoms_ = P_.atoms(unknown_[0], False)
                    elif not contradicted:
                        raise Und("condition `%s` is false for an undetermined reason" % ast.unparse(evn[1]))
                for atom in atoms_:
                    if atom[0] == "none" and isinstance(env.get(atom[1]), tuple):
                        # a local whose value is known on this path (a field of the date-system record): decided here
                        if (env[atom[1]] == ("none",)) != atom[2]:
                            feasible = False
                            break
                        continue
                    if atom[0] == "truthy" and atom[1] in flag_names:
                        if flagv is not None and flagv != atom[2]:
                            feasible = False
                        flagv = atom[2]
                    elif atom[0] == "cmp":
                        op, ls, rs, outcome = atom[1], atom[2], atom[3], atom[4]
                        l = ev(ast.parse(ls, mode="eval").body, env)
                        r = ev(ast.parse(rs, mode="eval").body, env)
                        if l[0] == "days" and r[0] == "int":
                            k = r[1] - l[2]  # compare the raw day count with k
                        elif l == ("label",) and r[0] == "date":
                            k = None
                            kd = r[1]
                        else:
                            raise Und("comparison %s %s %s" % (ls, op, rs))
                        if k is None:
                            # date comparison: translate to a day count once the epoch is known (use 1899-12-31 provisionally)
                            k = ("date", kd)
                        first_true = {"Gt": 1, "GtE": 0}.get(op)
                        if first_true is None:
                            first_below = {"Lt": 0, "LtE": 1}.get(op)
                            if first_below is None:
                                raise Und("operator %s" % op)
                            bound = (k, first_below)
                            if outcome:
                                hi = bound
                            else:
                                lo = bound
                        else:
                            bound = (k, first_true)
                            if outcome:
                                lo = bound
                            else:
                                hi = bound
                    else:
                        raise Und("condition %r" % (atom,))
            if not feasible:
                continue
            rv = ev(pth.end_node.value, env)
            if rv[0] != "days":
                raise Und("returned value is not a day count")
            rows.append((flagv, rv[1], rv[2], lo, hi))
    except Und as e:
        ctx.error(key, "date-system computation not decoded: %s" % e)
        return
    if not rows:
        ctx.error(key, "no returning path decoded")
        return

    def bound_days(b, epoch):
        if b is None:
            return None
        k, shift = b
        if isinstance(k, tuple):
            k = (k[1] - epoch).days
        return k + shift

    probs = []
    for flagv, epoch, add, lo, hi in rows:
        if flagv is True:
            s0 = (datetime.date(1904, 1, 1) - epoch).days + add
            if s0 != 0 or lo is not None or hi is not None:
                probs.append("1904 system: 1904-01-01 gets serial %d, the standard says 0" % s0)
        else:
            lo_d, hi_d = bound_days(lo, epoch), bound_days(hi, epoch)
            first_mar = (datetime.date(1900, 3, 1) - epoch).days
            jan1 = (datetime.date(1900, 1, 1) - epoch).days
            # rows partition the day counts: the one containing 1900-01-01 must give 1, the one containing 1900-03-01 and later must add 1
            def covers(x):
                return (lo_d is None or x >= lo_d) and (hi_d is None or x < hi_d)
            if covers(jan1) and jan1 + add != 1:
                probs.append("1900 system: 1900-01-01 gets serial %d, the standard says 1" % (jan1 + add))
            for day, want in ((first_mar - 1, first_mar - 1 + (jan1 - 1) * 0), (first_mar, first_mar + 1), (first_mar + 400, first_mar + 401)):
                if covers(day):
                    got = day + add
                    exp = day + (1 if day >= first_mar else 0) + (1 - jan1)
                    if got != exp:
                        dd = epoch + datetime.timedelta(days=day)
                        probs.append("1900 system: %s gets serial %d, the standard says %d (the phantom 1900-02-29 is serial 60: dates from "
                                     "1900-03-01 on are one more than their day count)" % (dd.isoformat(), got, exp))
    flags = {r[0] for r in rows}
    if flags != {True, False} and None not in flags:
        probs.append("only the %s date system is computed" % ("1904" if True in flags else "1900"))
    if None in flags:
        ctx.error(key, "a path does not decide the date-system flag")
        return
    if probs:
        ctx.violation(rid, key, "; ".join(sorted(set(probs))), file=f.file, line=f.line)
    else:
        ctx.ok(rid, key, sample={"1904": "serial 0 = 1904-01-01", "1900": "serial 1 = 1900-01-01, +1 from 1900-03-01 on", "paths": len(rows)})


def writer_rewriter_rule(ctx, prog, rid):
    """ChartXmlWriter and SeriesXmlRewriterFactory dispatch on the chart type; for each type the chart writer class and the
    rewriter class must build their series XML with the same series-writer class (category / XY / bubble), otherwise
    replace_data leaves part of the cache (e.g. c:bubbleSize) stale while the workbook is replaced in full."""
    wm = prog.modules.get("pptx.chart.xmlwriter")
    fw = next((g for g in prog.all_functions() if g.module is wm and g.name == "ChartXmlWriter"), None)
    fr = next((g for g in prog.all_functions() if g.module is wm and g.name == "SeriesXmlRewriterFactory"), None)
    if not (fw and fr):
        raise AnalysisError("anchor vanished: ChartXmlWriter / SeriesXmlRewriterFactory")

    def table(f):
        """the chart-type -> class table the function looks `chart_type` up in, wherever it is defined (inline literal, local,
        module constant), with the default of a `.get(k, default)` lookup"""
        from sa import paths as P_
        from sa.pysrc import ClassRef, EnumMember

        env = P_.local_env(prog, f)
        for n in ast.walk(f.node):
            recv, default = None, None
            if isinstance(n, ast.Call) and isinstance(n.func, ast.Attribute) and n.func.attr == "get" and len(n.args) in (1, 2):
                recv = n.func.value
                dv = prog.const(n.args[1], f.module, env) if len(n.args) == 2 else None
                default = dv.cls.name if isinstance(dv, ClassRef) else None
            elif isinstance(n, ast.Subscript) and isinstance(n.ctx, ast.Load):
                recv = n.value
            if recv is None:
                continue
            v = prog.const(recv, f.module, env)
            if isinstance(v, dict) and len(v) >= 3 and all(isinstance(k, EnumMember) for k in v) and all(isinstance(x, ClassRef) for x in v.values()):
                return {k.name: x.cls.name for k, x in v.items()}, default
        return None, None

    tw, _ = table(fw)
    tr, dflt = table(fr)
    if not tw or tr is None or dflt is None:
        ctx.error("pptx.chart.xmlwriter", "chart-type dispatch tables not recognised")
        return

    def series_writers(cname):
        c = wm.classes.get(cname)
        out = set()
        if c is None:
            return out
        names = set()
        for k in prog.mro(c):
            names |= set(getattr(k, "methods", {}))
        for nm in names:
            m = prog.lookup(c, nm)  # the effective (most derived) definition only
            if m is None:
                continue
            for n in ast.walk(m.node):
                if isinstance(n, ast.Call) and isinstance(n.func, ast.Name) and n.func.id.endswith("SeriesXmlWriter"):
                    out.add(n.func.id)
        return out

    n = 0
    for ct, wcls in sorted(tw.items()):
        rcls = tr.get(ct, dflt)
        a, b = series_writers(wcls), series_writers(rcls)
        key = "chart-type %s" % ct
        n += 1
        if a and a == b:
            ctx.ok(rid, key, nontrivial=(ct in tr), sample={"chart_type": ct, "writer": wcls, "rewriter": rcls, "series_writer": sorted(a)} if ct in tr else None)
        else:
            ctx.violation(rid, key, "add_chart builds the series of %s with %s (%s) but replace_data rewrites them with %s (%s): the elements only the "
                          "former writes keep their old references and cached points while the workbook is replaced" % (
                              ct, sorted(a), wcls, sorted(b), rcls), file=fr.file, line=fr.line)
    for ct in sorted(set(tr) - set(tw)):
        ctx.violation(rid, "chart-type %s" % ct, "rewriter table lists %s, which the chart writer table does not know" % ct, file=fr.file, line=fr.line)
    ctx.count("chart_types", n)


def run(ctx):
    from checks.c10 import load

    prog, S, M = load(ctx.repo)
    ctx.level = "other"
    ctx.trusted = ["CPython ast", "polynomial normal forms", "XlsxWriter write(row, col, v) / write_column(row, col, seq) address cells zero-based, "
                   "column-wise and in order", "A1 notation: column A = 0, rows one-based"]
    ctx.explanation = (
        "Each formula reference is a format string over a handful of affine quantities, and each worksheet write addresses cells by "
        "affine expressions in the same quantities. Both are decoded from the source into polynomial normal forms and compared; the "
        "pairing of a reference with the data it must cover is read from the XML writers (which reference is placed next to which "
        "cached values). No workbook is produced or opened.")
    ctx.not_decided = ["column letters from _column_reference (bijective base-26 loop)",                        "values as stored by XlsxWriter (shared strings, number formats)", "series.index == position in enumerate(chart_data) (premise)"]

    xm = prog.modules.get("pptx.chart.xlsx")
    wm = prog.modules.get("pptx.chart.xmlwriter")
    dm = prog.modules.get("pptx.chart.data")
    if not (xm and wm and dm):
        raise AnalysisError("anchor vanished: pptx.chart.{xlsx,xmlwriter,data}")

    # -- R8.1 pairs from the XML writers -------------------------------------------------------------------
    ctx.rule("R8.1", "the reference next to cached values and the worksheet write for those cells use the same data attribute")
    pairs = {}  # ref name -> set(attr)
    wmods_ = [wm] + [prog.modules[i_[1]] for i_ in wm.imports.values() if i_[0] == "attr" and i_[1].startswith("pptx.chart.")
                     and i_[1] in prog.modules]   # the writers, and the chart modules they take definitions from
    for f in prog.all_functions():
        if not any(f.module is m_ for m_ in wmods_):
            continue
        for c in ast.walk(f.node):
            if isinstance(c, ast.Call) and (dotted(c.func) or "").endswith("numRef_xml"):
                # the worksheet reference and the values it is written next to, however they are passed (by position or by name;
                # the number format, when passed, is neither)
                given = [dotted(a_) or "" for a_ in list(c.args) + [k_.value for k_ in c.keywords]]
                given = [g_ for g_ in given if g_.startswith("self._series.") and not g_.endswith("number_format")]
                refs_ = [g_ for g_ in given if g_.endswith("_ref")]
                vals_ = [g_ for g_ in given if not g_.endswith("_ref")]
                if len(refs_) == 1 and len(vals_) == 1:
                    pairs.setdefault(refs_[0].split(".")[-1], set()).add(vals_[0].split(".")[-1])
    # category values: values_ref sits in the template whose points come from _val_pt_xml (iterates self._series.values)
    cs = wm.classes.get("_CategorySeriesXmlWriter")
    vp = cs.methods.get("_val_pt_xml") if cs else None
    if vp is not None:
        for n in ast.walk(vp.node):
            if isinstance(n, (ast.For, ast.comprehension)):   # statement loop or "".join(... for ...)
                it_ = n.iter.args[0] if isinstance(n.iter, ast.Call) and dotted(n.iter.func) == "enumerate" and n.iter.args else n.iter
                if (dotted(it_) or "").startswith("self._series."):
                    pairs.setdefault("values_ref", set()).add(dotted(it_).split(".")[-1])
    if not pairs or any(len(v) != 1 for v in pairs.values()):
        ctx.error("pptx.chart.xmlwriter", "reference/data pairing not recognised: %s" % pairs)
    pairs = {k: next(iter(v)) for k, v in pairs.items() if len(v) == 1}
    pairs["name_ref"] = "name"
    ctx.count("ref_data_pairs", len(pairs))

    # -- R8.2 decode ------------------------------------------------------------------------------------------
    ctx.rule("R8.2", "reference ranges equal the cells the workbook writer fills (polynomial normal forms)")
    ctx.rule("R8.3", "delegation chain keeps the reference's name; each chart data kind uses its own workbook writer")
    layout = {
        "CategoryWorkbookWriter": {"values_ref": "values", "series_name_ref": "name", "categories_ref": None},
        "XyWorkbookWriter": {"x_values_ref": "x_values", "y_values_ref": "y_values", "series_name_ref": "name"},
        "BubbleWorkbookWriter": {"x_values_ref": "x_values", "y_values_ref": "y_values", "bubble_sizes_ref": "bubble_sizes", "series_name_ref": "name"},
    }
    nrefs = nwrites = 0
    for cname, refs in layout.items():
        cls = xm.classes.get(cname)
        if cls is None:
            raise AnalysisError("anchor vanished: %s" % cname)
        D = Decoder(prog, cls)
        pw = prog.lookup(cls, "_populate_worksheet")
        try:
            ws = D.writes(pw)
        except NotDecoded as e:
            ctx.error("%s._populate_worksheet" % cname, "worksheet writes not decoded: %s" % e)
            continue
        nwrites += len(ws)
        for rname, attr in sorted(refs.items()):
            f = prog.lookup(cls, rname)
            key = "%s.%s" % (cname, rname)
            if f is None:
                ctx.error(key, "reference builder missing")
                continue
            try:
                c1, c2, r1, r2 = D.ref(f)
            except NotDecoded as e:
                ctx.error(key, "reference not decoded: %s" % e)
                continue
            nrefs += 1
            if rname == "categories_ref":
                cw = [w for w in ws if "levels" in w[4]]
                if len(cw) != 1:
                    ctx.error(key, "category cell writes not recognised (%d)" % len(cw))
                    continue
                kind, row0, col0, dsrc, loops = cw[0]
                # columns: lvl in [0, depth-1]; rows: off in [0, leaf-1]
                cmin = col0.subst("lvl", Poly.sym("depth") - Poly.const(1))
                cmax = col0.subst("lvl", Poly.const(0))
                if col0.t.get(("lvl",)) == 1:
                    cmin, cmax = cmax, cmin
                rmin = row0.subst("off", Poly.const(0))
                rmax = row0.subst("off", Poly.sym("leaf") - Poly.const(1))
                probs = []
                # c:multiLvlStrRef lists its c:lvl elements leaf level first; in the worksheet the leaf level is the right-most of
                # the category columns: level k (0 = leaves, the order of Categories.levels) lives in column depth-1-k
                if col0 != Poly.sym("depth") - Poly.sym("lvl") - Poly.const(1):
                    probs.append("level k is written to column %r, but the k-th c:lvl (leaf level first) is read from column depth-1-k" % col0)
                if (c1, c2) != (cmin, cmax):
                    probs.append("reference columns %r..%r, cells written in columns %r..%r" % (c1, c2, cmin, cmax))
                if (r1, r2) != (rmin + Poly.const(1), rmax + Poly.const(1)):
                    probs.append("reference rows %r..%r, cells written in rows %r..%r (one-based)" % (r1, r2, rmin + Poly.const(1), rmax + Poly.const(1)))
                if probs:
                    ctx.violation("R8.2", key, "; ".join(probs), file=f.file, line=f.line)
                else:
                    ctx.ok("R8.2", key, sample={"reference": "cols 0..depth-1, rows 2..leaf_count+1", "cells": "col depth-level-1, row offset+1 (zero-based)"})
                continue
            # find the write for this attribute
            want_kind = "cell" if attr == "name" else "column"
            cand = [w for w in ws if w[0] == want_kind and w[3] in ("series." + attr,)]
            if len(cand) != 1:
                ctx.violation("R8.1", key, "no single worksheet write of series.%s found for the cells %s refers to (found %s)" % (
                    attr, rname, [w[3] for w in ws if w[0] == want_kind]), file=pw.file, line=pw.line)
                continue
            kind, row0, col0, dsrc, loops = cand[0]
            probs = []
            if c1 != col0 or c2 != col0:
                probs.append("reference column %r (zero-based), cells written in column %r" % (c1, col0))
            exp_lo = row0 + Poly.const(1)
            exp_hi = exp_lo if kind == "cell" else row0 + Poly.sym("len")
            if r1 != exp_lo or r2 != exp_hi:
                probs.append("reference rows %r..%r, cells written in rows %r..%r (one-based)" % (r1, r2, exp_lo, exp_hi))
            if probs:
                ctx.violation("R8.2", key, "; ".join(probs), file=f.file, line=f.line)
            else:
                ctx.ok("R8.2", key, sample={"column": repr(col0), "rows": "%r..%r" % (r1, r2), "data": dsrc})
            # same attribute as the XML cache
            series_level = {"series_name_ref": "name_ref"}.get(rname, rname)
            xa = pairs.get(series_level)
            if xa is None:
                ctx.error(key, "no XML-side pairing for %s" % series_level)
            elif xa == attr:
                ctx.ok("R8.1", key, sample={"xml_cache_from": "series." + xa, "cells_from": dsrc})
            else:
                ctx.violation("R8.1", key, "the XML caches series.%s next to %s, the workbook writes %s into those cells" % (xa, rname, dsrc),
                              file=pw.file, line=pw.line)
        # no two writes overlap in a way that hides data: distinct (row, col) starts per series table
        starts = [(repr(w[1]), repr(w[2])) for w in ws if "levels" not in w[4]]
        if len(starts) != len(set(starts)):
            ctx.violation("R8.2", "%s:overlap" % cname, "two worksheet writes start at the same cell: %s" % starts, file=pw.file, line=pw.line)
        else:
            ctx.ok("R8.2", "%s:overlap" % cname, nontrivial=False)
    ctx.count("references_decoded", nrefs)
    ctx.count("writes_decoded", nwrites)

    # XY series tables do not overlap: offset = 2*index + data_point_offset; each table has 1 heading row + len rows
    xy = xm.classes.get("XyWorkbookWriter")
    off = xy.methods.get("series_table_row_offset") if xy else None
    if off is not None:
        try:
            p = Decoder(prog, xy).inline(off, None)
            want = Poly.const(2) * Poly.sym("index") + Poly.sym("dpo")
            if p == want:
                ctx.ok("R8.2", "XyWorkbookWriter.series_table_row_offset", sample={"offset": "2*index + points before the series: every table is "
                                                                                 "heading + len rows, followed by one spacer row"})
            else:
                ctx.violation("R8.2", "XyWorkbookWriter.series_table_row_offset", "row offset is %r; tables of heading+len rows with one spacer need "
                              "2*index + data_point_offset, otherwise tables overlap or references drift" % p, file=off.file, line=off.line)
        except NotDecoded as e:
            ctx.error("XyWorkbookWriter.series_table_row_offset", "not decoded: %s" % e)
    dpo = None
    for c in dm.classes.values():
        g = c.methods.get("data_point_offset")
        if g is not None and len(g.node.args.args) == 2:
            dpo = g
    good = False
    if dpo is not None:
        # count = 0; for s in self: if series is s: return count; count += len(s)
        for lp in [n for n in ast.walk(dpo.node) if isinstance(n, ast.For)]:
            if dotted(lp.iter) != "self":
                continue
            v = lp.target.id
            ret_i = acc_i = None
            for i, st in enumerate(lp.body):
                if isinstance(st, ast.If) and isinstance(st.test, ast.Compare) and isinstance(st.test.ops[0], (ast.Is, ast.Eq)) \
                        and any(isinstance(x, ast.Return) and isinstance(x.value, ast.Name) for x in st.body):
                    ret_i = i
                if isinstance(st, ast.AugAssign) and isinstance(st.op, ast.Add) and isinstance(st.value, ast.Call) and dotted(st.value.func) == "len" \
                        and dotted(st.value.args[0]) == v:
                    acc_i = i
            good = ret_i is not None and acc_i is not None and ret_i < acc_i
    if good:
        ctx.ok("R8.2", "data_point_offset", sample={"value": "sum of len(s) over the series before this one (test precedes accumulation)"})
    else:
        ctx.violation("R8.2", "data_point_offset", "data_point_offset is not the number of points in the preceding series", file=dm.relpath,
                      line=dpo.line if dpo else 1)

    # -- R8.3 ----------------------------------------------------------------------------------------------
    n3 = 0
    for c in dm.classes.values():
        for name, f in c.methods.items():
            if not name.endswith("_ref"):
                continue
            rets = [n.value for n in walk_own(f.node) if isinstance(n, ast.Return)]
            if len(rets) != 1:
                continue
            r = rets[0]
            tgt = dotted(r.func) if isinstance(r, ast.Call) else dotted(r)
            if not tgt or not tgt.startswith(("self._chart_data.", "self._workbook_writer.")):
                continue
            n3 += 1
            key = "%s.%s" % (c.name, name)
            callee = tgt.split(".")[-1]
            exp = {"name_ref": "series_name_ref"}.get(name, name)
            if callee == exp or callee == name:
                args_ok = True
                if isinstance(r, ast.Call):
                    a = [dotted(x) for x in r.args]
                    args_ok = a in (["self"], ["series"], [])
                if args_ok:
                    ctx.ok("R8.3", key, sample={"delegates_to": tgt})
                else:
                    ctx.violation("R8.3", key, "reference is asked for another series (%s)" % a, file=f.file, line=f.line)
            else:
                ctx.violation("R8.3", key, "%s delegates to %s: the formula next to these values points at other cells" % (name, callee),
                              file=f.file, line=f.line)
    ctx.count("delegations", n3)
    want_w = {"CategoryChartData": "CategoryWorkbookWriter", "XyChartData": "XyWorkbookWriter", "BubbleChartData": "BubbleWorkbookWriter"}
    for cn, wn in want_w.items():
        c = dm.classes.get(cn)
        f = c.methods.get("_workbook_writer") if c else None
        got = None
        for n in ast.walk(f.node) if f else []:
            if isinstance(n, ast.Return) and isinstance(n.value, ast.Call):
                got = (dotted(n.value.func), [dotted(a) for a in n.value.args])
        if got == (wn, ["self"]):
            ctx.ok("R8.3", "%s._workbook_writer" % cn, sample={"writer": wn})
        else:
            ctx.violation("R8.3", "%s._workbook_writer" % cn, "chart data of this kind builds %s, expected %s(self)" % (got, wn),
                          file=dm.relpath, line=f.line if f else 1)
    ch = prog.cls("pptx.chart.chart", "Chart")
    rd = ch.methods.get("replace_data") if ch else None
    good = False
    if rd is not None:
        p = rd.node.args.args[1].arg
        rw = any(isinstance(c, ast.Call) and (dotted(c.func) or "").endswith("SeriesXmlRewriterFactory") and dotted(c.args[1]) == p for c in ast.walk(rd.node))
        wb = any(isinstance(c, ast.Call) and (dotted(c.func) or "").endswith("update_from_xlsx_blob") and dotted(c.args[0]) == p + ".xlsx_blob" for c in ast.walk(rd.node))
        good = rw and wb
    if good:
        ctx.ok("R8.3", "Chart.replace_data", sample={"xml": "rewriter built from chart_data", "workbook": "chart_data.xlsx_blob"})
    else:
        ctx.violation("R8.3", "Chart.replace_data", "replace_data does not rewrite the XML and the workbook from the same chart data object",
                      file=ch.file if ch else "src/pptx/chart/chart.py", line=rd.line if rd else 1)

    # -- R8.4 ----------------------------------------------------------------------------------------------
    ctx.rule("R8.4", "date categories: serial numbers follow the 1900 / 1904 date systems of the standard")
    date_system_rule(ctx, prog, "R8.4")

    # -- R8.5 ----------------------------------------------------------------------------------------------
    ctx.rule("R8.5", "for every chart type, replace_data rewrites the series with the same series writer add_chart used")
    writer_rewriter_rule(ctx, prog, "R8.5")

    # -- R8.6 ----------------------------------------------------------------------------------------------
    ctx.rule("R8.6", "the cached date serials and the embedded workbook use the same date system")
    # add_chart path: templates declare c:date1904 val="0", series writers default to date_1904=False, XlsxWriter defaults to 1900
    bsw = wm.classes.get("_BaseSeriesXmlWriter")
    init = bsw.methods.get("__init__") if bsw else None
    dflt = None
    if init is not None:
        a = init.node.args
        names = [x.arg for x in a.args]
        if "date_1904" in names and a.defaults:
            dflt = prog.const(a.defaults[-1], init.module)
    wbcalls = [c for f_ in prog.all_functions() if f_.module is xm for c in ast.walk(f_.node) if isinstance(c, ast.Call) and dotted(c.func) == "Workbook"]
    opts = set()
    for c in wbcalls:
        for a_ in c.args[1:]:
            if isinstance(a_, ast.Dict):
                opts |= {prog.const(k, xm) for k in a_.keys}
    if dflt is False and wbcalls:
        ctx.ok("R8.6", "add_chart:date-system", sample={"series_writer_default": "date_1904=False", "workbook": "XlsxWriter default (1900)",
                                                        "templates": 'c:date1904 val="0"'})
    else:
        ctx.violation("R8.6", "add_chart:date-system", "new charts do not default to the 1900 date system on both sides (series writer default %r)" % dflt,
                      file=wm.relpath, line=init.line if init else 1)
    # replace_data path: the rewriter reads the chart's own flag; the workbook must be written in that system too
    rr = wm.classes.get("_BaseSeriesXmlRewriter")
    rsd = rr.methods.get("replace_series_data") if rr else None
    reads_flag = rsd is not None and any(isinstance(n, ast.Attribute) and n.attr == "date_1904" for n in ast.walk(rsd.node))
    if reads_flag and "date_1904" not in opts:
        ctx.violation("R8.6", "replace_data:date1904", "replace_data computes cached date categories in the chart's date system (chartSpace.date_1904) but "
                      "the replacement workbook is always written in the 1900 system (Workbook options %s): on a chart with c:date1904 = 1 every "
                      "cached date differs from its cell by 1462" % sorted(o for o in opts if o), file=rsd.file, line=rsd.line,
                      witness="chart with <c:date1904 val=\"1\"/>, replace_data with categories [2017-01-01]: cache 41274.0, cell A2 42736")
    elif reads_flag:
        ctx.ok("R8.6", "replace_data:date1904", sample={"workbook_options": sorted(o for o in opts if o)})
    else:
        ctx.ok("R8.6", "replace_data:date1904", sample={"rewriter": "does not depend on the chart's date-system flag"})

    # -- R8.7 ----------------------------------------------------------------------------------------------
    ctx.rule("R8.7", "a date category label reaches the cache and the worksheet cell through the same reduction")
    cat = dm.classes.get("Category")
    edn = cat.methods.get("_excel_date_number") if cat else None
    nsv = cat.methods.get("numeric_str_val") if cat else None
    if not (edn and nsv):
        raise AnalysisError("anchor vanished: Category._excel_date_number / numeric_str_val")
    admits_datetime = any(isinstance(n, ast.Call) and dotted(n.func) == "isinstance" and any(
        (dotted(e) or "").endswith("datetime.datetime") for e in (n.args[1].elts if isinstance(n.args[1], ast.Tuple) else [n.args[1]]))
        for n in ast.walk(nsv.node))
    comps = set()
    for n in ast.walk(edn.node):
        if isinstance(n, ast.Attribute) and n.attr in ("year", "month", "day", "hour", "minute", "second", "microsecond") and isinstance(n.value, ast.Name):
            comps.add(n.attr)
    uses_whole = any(isinstance(n, ast.BinOp) and isinstance(n.op, ast.Sub) and dotted(n.left) in ("label", "self._label") for n in ast.walk(edn.node))
    cache_drops_time = admits_datetime and not uses_whole and comps and not (comps & {"hour", "minute", "second"})
    # worksheet side: does the category write reduce the label?
    cwc = xm.classes["CategoryWorkbookWriter"].methods.get("_write_cat_column")
    cell_reduced = False
    for n in ast.walk(cwc.node) if cwc else []:
        if isinstance(n, ast.Call) and dotted(n.func) == "worksheet.write" and len(n.args) >= 3:
            cell_reduced = not isinstance(n.args[2], ast.Name)
    if cache_drops_time and not cell_reduced:
        ctx.violation("R8.7", "datetime-label:time-part", "a datetime category label is reduced to its date (%s) for the cached value but written "
                      "unreduced into the worksheet: for a label with a time of day the cached point and the cell differ by the day fraction" % sorted(comps),
                      file=edn.file, line=edn.line, witness="categories [datetime(2016,12,27,18,0)]: cache 42731.0, cell A2 42731.75")
    else:
        ctx.ok("R8.7", "datetime-label:time-part", sample={"cache_from": sorted(comps) or "whole label", "cell": "reduced" if cell_reduced else "label as given"})

    _r88(ctx, prog, xm, wm, dm)


# -- R8.8 ---------------------------------------------------------------------------------------------------
MEMO_DECORATORS = {"lazyproperty", "cached_property", "functools.cached_property", "lru_cache", "functools.lru_cache", "cache", "functools.cache"}


def _memoised(f):
    for d in f.node.decorator_list:
        d0 = d.func if isinstance(d, ast.Call) else d
        if (dotted(d0) or "") in MEMO_DECORATORS:
            return dotted(d0)
    return None


def _r88(ctx, prog, xm, wm, dm):
    """Chart data objects are filled in after they are created (add_series, add_category, add_data_point ...), and one object may be
    used for several charts or replace_data() calls.  What is derived from their content - the workbook blob, the references, the
    XML - must therefore be computed when it is asked for: a memoised property that reads the content keeps the first answer, and
    the workbook of a later chart no longer matches the ranges and cached values of its XML."""
    ctx.rule("R8.8", "nothing derived from the (mutable) content of chart data is memoised")
    mods = [m for m in (dm, xm, wm) if m is not None]
    # fields of the chart-data classes that change after construction
    mutable = {}   # class -> {field}
    for c in dict.values(dm.classes):
        for name, f in list(c.methods.items()) + list(c.setters.items()):
            if name == "__init__":
                continue
            for n in ast.walk(f.node):
                tgt = None
                if isinstance(n, ast.Call) and isinstance(n.func, ast.Attribute) and n.func.attr in ("append", "extend", "insert", "add", "update", "pop", "remove", "clear") \
                        and isinstance(n.func.value, ast.Attribute) and dotted(n.func.value.value) == "self":
                    tgt = n.func.value.attr
                elif isinstance(n, (ast.Assign, ast.AugAssign)):
                    for t in (n.targets if isinstance(n, ast.Assign) else [n.target]):
                        t0 = t.value if isinstance(t, ast.Subscript) else t
                        if isinstance(t0, ast.Attribute) and dotted(t0.value) == "self":
                            tgt = t0.attr
                            if tgt:
                                mutable.setdefault(c, set()).add(tgt)
                if tgt:
                    mutable.setdefault(c, set()).add(tgt)
    ctx.count("mutable_chart_data_fields", sum(len(v) for v in mutable.values()))
    # fields of the writer classes that hold the chart-data object: `Writer(self)` constructed inside a chart-data class
    holders = {}   # writer class -> field name
    for c in dict.values(dm.classes):
        for f in c.methods.values():
            for n in ast.walk(f.node):
                if isinstance(n, ast.Call) and len(n.args) >= 1 and dotted(n.args[0]) == "self" and dotted(n.func):
                    r = prog.resolve(dm, dotted(n.func))
                    if hasattr(r, "methods"):
                        for k in prog.mro(r):
                            ini = k.methods.get("__init__") if hasattr(k, "methods") else None
                            if ini is None or len(ini.params) < 2:
                                continue
                            for a in ast.walk(ini.node):
                                if isinstance(a, ast.Assign) and isinstance(a.value, ast.Name) and a.value.id == ini.params[1] \
                                        and isinstance(a.targets[0], ast.Attribute) and dotted(a.targets[0].value) == "self":
                                    holders[r] = a.targets[0].attr
                            break

    def family(c):
        return [k for k in prog.all_classes() if c in prog.mro(k) or k in prog.mro(c)]

    def reads_content(f, seen, depth=0):
        """(description) of a read of mutable chart-data content reachable from f through its own object, or None"""
        if f in seen or depth > 4:
            return None
        seen.add(f)
        cls = f.cls
        fam = family(cls) if cls is not None else []
        hold = {holders[k] for k in fam if k in holders}
        mut = set().union(*[mutable.get(k, set()) for k in fam]) if fam else set()
        for n in ast.walk(f.node):
            if isinstance(n, ast.Attribute) and dotted(n.value) == "self" and isinstance(n.ctx, ast.Load):
                if n.attr in hold:
                    return "%s reads the chart data it was given (self.%s), which is filled in after construction" % (f.qualname, n.attr)
                if n.attr in mut:
                    return "%s reads self.%s, which %s changes after construction" % (f.qualname, n.attr, "a mutator of the class")
                for k in fam:
                    g = k.methods.get(n.attr)
                    if g is not None and g is not f:
                        r = reads_content(g, seen, depth + 1)
                        if r:
                            return r
            elif isinstance(n, ast.Name) and n.id == "self" and isinstance(n.ctx, ast.Load) and cls is not None and cls.module is dm:
                pass
        # iteration over self (`for s in self`) of a chart-data class reads its series
        if cls is not None and cls.module is dm:
            for n in ast.walk(f.node):
                if isinstance(n, (ast.For, ast.comprehension)) and dotted(n.iter) == "self":
                    for k in fam:
                        for nm in ("__iter__", "__getitem__"):
                            g = k.methods.get(nm)
                            if g is not None:
                                r = reads_content(g, seen, depth + 1)
                                if r:
                                    return r
        return None

    n_memo = 0
    for m in mods:
        for c in dict.values(m.classes):
            for name, f in c.methods.items():
                deco = _memoised(f)
                if deco is None:
                    continue
                n_memo += 1
                key = "%s.%s" % (c.name, name)
                why = reads_content(f, set())
                if why:
                    ctx.violation("R8.8", key, "@%s keeps the first value of %s, but %s: once the chart data has changed (another series, other "
                                  "categories, another chart) the memoised value is stale and workbook and chart XML disagree" % (deco, key, why),
                                  file=f.file, line=f.line)
                else:
                    ctx.ok("R8.8", key, sample={"memoised": key, "reads": "no mutable chart-data content"})
    ctx.count("memoised_in_chart_modules", n_memo)
    ctx.ok("R8.8", "chart modules", sample={"modules": [m.name for m in mods], "memoised": n_memo})
